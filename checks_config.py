"""Per-property configuration of the checks: which test functions of the harness decide the property,
how many generated cases per tier, the evidence rule text and the assumptions."""

ASSUMPTIONS_COMMON = [
    "sampled search: a pass means no violation among the generated cases, not absence of violations",
    "the Go runtime, the kernel page cache / filesystem and Pebble's own atomicity are trusted",
]

CHECKS = {
    "C09": {
        "level": "exploration",
        "tests": [
            {"pkg": "walx", "run": "^TestC09_WalModel$", "quick": 16000, "thorough": 400000},
        ],
        "floors": {"cross_segment_truncate": 0.10, "rollover": 0.4},
        "rule": "rapid state machine over a real WAL (segment size 128..8192 B, SyncData on/off, entry sizes "
                "steered to end at/before/after segment ends) against a list model: Append, AppendAsync*, Sync, "
                "AppendAndSync, append at a wrong offset, TruncateLog(-1|first..last), Clear, append at any offset "
                "after Clear, Close+reopen, trim under a mocked clock with drawn retention/commit offset, forward "
                "reader from a drawn offset, reverse reader; first/last checked after every step. A case is "
                "non-trivial when it had >=1 segment rollover AND >=1 of {truncate into an older segment, reopen, "
                "trim that removed entries, append at offset>0 on an empty log}; distinct = distinct operation "
                "list (hash of the written-out history).",
        "assumptions": [
            "entries fit an empty segment, carry non-decreasing term/timestamp and a non-empty encoding (what the controllers produce)",
            "TruncateLog targets are -1 or inside [first,last]",
            "after a trim + reopen the reported first offset may fall back to the base of the oldest surviving segment (accepted)",
        ],
    },
    "C10": {
        "level": "fault_enumeration",
        "tests": [
            {"pkg": "walx", "run": "^TestC10_Crash$", "quick": 40000, "thorough": 600000},
            {"pkg": "walx", "run": "^TestC10_Corrupt$", "quick": 40000, "thorough": 600000},
        ],
        "floors": {"hit_stored_bytes": 0.15, "tail_record_hit": 0.10},
        "rule": "(a) power-loss images of a real WAL (SyncData=true): the durable content of each segment file is what it "
                "held at its last msync (observed through the verif flush hook; zeros if never msynced), every chunk "
                "(8..4096 B) changed since then independently persists, is lost, or is torn (zero/0xFF/garbage on the "
                "changed bytes only); index files of closed segments may be absent, cut or zero-tailed; never-msynced "
                "newest segment files may be absent. Oracle: reopen succeeds, recovered log = every entry covered by a "
                "successful Sync + a prefix of the rest, bit-identical; then new entries (often the same encoded size as "
                "the lost ones) are appended, the WAL is reopened again and must equal the model exactly. (b) one damaged "
                "region in a cleanly closed WAL (hostile length words, header/payload byte flips, zero/0xFF/random "
                "ranges, index file removed/cut/extended/flipped; both formats): never panics, every entry served is "
                "bit-identical to the model, damage confined to uncommitted records of the last segment is discarded, a "
                "successful open never silently drops committed entries. Non-trivial = the damage hit bytes of a stored "
                "record or index (a) / an unsynced or reported-synced record lay in at-risk bytes (b); distinct = "
                "distinct written-out history.",
        "assumptions": [
            "sector-atomic media: bytes that were durable and not rewritten since the last msync keep their value",
            "v1 (legacy) records and index files carry no checksum: for damaged v1 data only 'no panic' is claimed",
            "a log that is blank from offset 0 cannot be told apart from the empty log a snapshot install leaves (accepted)",
            "several independent damaged spots in one image: only 'no panic' is claimed (CRC32 can be defeated by coordinated changes)",
        ],
    },
}
