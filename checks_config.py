"""Per-property configuration of the checks: which test functions of the harness decide the property,
how many generated cases per tier, the evidence rule text and the assumptions."""

ASSUMPTIONS_COMMON = [
    "sampled search: a pass means no violation among the generated cases, not absence of violations",
    "the Go runtime, the kernel page cache / filesystem and Pebble's own atomicity are trusted",
]

CHECKS = {
    "C09": {
        "level": "exploration",
        "tests": [
            {"pkg": "walx", "run": "^TestC09_WalModel$", "quick": 16000, "thorough": 400000},
        ],
        "floors": {"cross_segment_truncate": 0.10, "rollover": 0.4},
        "rule": "rapid state machine over a real WAL (segment size 128..8192 B, SyncData on/off, entry sizes "
                "steered to end at/before/after segment ends) against a list model: Append, AppendAsync*, Sync, "
                "AppendAndSync, append at a wrong offset, TruncateLog(-1|first..last), Clear, append at any offset "
                "after Clear, Close+reopen, trim under a mocked clock with drawn retention/commit offset, forward "
                "reader from a drawn offset, reverse reader; first/last checked after every step. A case is "
                "non-trivial when it had >=1 segment rollover AND >=1 of {truncate into an older segment, reopen, "
                "trim that removed entries, append at offset>0 on an empty log}; distinct = distinct operation "
                "list (hash of the written-out history).",
        "assumptions": [
            "entries fit an empty segment, carry non-decreasing term/timestamp and a non-empty encoding (what the controllers produce)",
            "TruncateLog targets are -1 or inside [first,last]",
            "after a trim + reopen the reported first offset may fall back to the base of the oldest surviving segment (accepted)",
        ],
    },
}
