"""Per-property configuration of the checks: which test functions of the harness decide the property,
how many generated cases per tier, the evidence rule text and the assumptions."""

ASSUMPTIONS_COMMON = [
    "sampled search: a pass means no violation among the generated cases, not absence of violations",
    "the Go runtime, the kernel page cache / filesystem and Pebble's own atomicity are trusted",
]

CHECKS = {
    "C09": {
        "level": "exploration",
        "tests": [
            {"pkg": "walx", "run": "^TestC09_WalModel$", "quick": 16000, "thorough": 1600000},
        ],
        "floors": {"cross_segment_truncate": 0.10, "rollover": 0.4},
        "rule": "rapid state machine over a real WAL (segment size 128..8192 B, SyncData on/off, entry sizes "
                "steered to end at/before/after segment ends) against a list model: Append, AppendAsync*, Sync, "
                "AppendAndSync, append at a wrong offset, TruncateLog(-1|first..last), Clear, append at any offset "
                "after Clear, Close+reopen, trim under a mocked clock with drawn retention/commit offset, forward "
                "reader from a drawn offset, reverse reader; first/last checked after every step. A case is "
                "non-trivial when it had >=1 segment rollover AND >=1 of {truncate into an older segment, reopen, "
                "trim that removed entries, append at offset>0 on an empty log}; distinct = distinct operation "
                "list (hash of the written-out history).",
        "assumptions": [
            "entries fit an empty segment, carry non-decreasing term/timestamp and a non-empty encoding (what the controllers produce)",
            "TruncateLog targets are -1 or inside [first,last]",
            "after a trim + reopen the reported first offset may fall back to the base of the oldest surviving segment (accepted)",
        ],
    },
    "C10": {
        "level": "fault_enumeration",
        "tests": [
            {"pkg": "walx", "run": "^TestC10_Crash$", "quick": 40000, "thorough": 2400000, "max_per_process": 40000},
            {"pkg": "walx", "run": "^TestC10_Corrupt$", "quick": 40000, "thorough": 2400000, "max_per_process": 40000},
        ],
        "floors": {"hit_stored_bytes": 0.15, "tail_record_hit": 0.10},
        "rule": "(a) power-loss images of a real WAL (SyncData=true): the durable content of each segment file is what it "
                "held at its last msync (observed through the verif flush hook; zeros if never msynced), every chunk "
                "(8..4096 B) changed since then independently persists, is lost, or is torn (zero/0xFF/garbage on the "
                "changed bytes only); index files of closed segments may be absent, cut or zero-tailed; never-msynced "
                "newest segment files may be absent. Oracle: reopen succeeds, recovered log = every entry covered by a "
                "successful Sync + a prefix of the rest, bit-identical; then new entries (often the same encoded size as "
                "the lost ones) are appended, the WAL is reopened again and must equal the model exactly. (b) one damaged "
                "region in a cleanly closed WAL (hostile length words, header/payload byte flips, zero/0xFF/random "
                "ranges, index file removed/cut/extended/flipped; both formats): never panics, every entry served is "
                "bit-identical to the model, damage confined to uncommitted records of the last segment is discarded, a "
                "successful open never silently drops committed entries. Non-trivial = the damage hit bytes of a stored "
                "record or index (a) / an unsynced or reported-synced record lay in at-risk bytes (b); distinct = "
                "distinct written-out history.",
        "assumptions": [
            "sector-atomic media: bytes that were durable and not rewritten since the last msync keep their value",
            "v1 (legacy) records and index files carry no checksum: for damaged v1 data only 'no panic' is claimed",
            "a log that is blank from offset 0 cannot be told apart from the empty log a snapshot install leaves (accepted)",
            "several independent damaged spots in one image: only 'no panic' is claimed (CRC32 can be defeated by coordinated changes)",
        ],
    },
    "C11": {
        "level": "exploration",
        "tests": [
            {"pkg": "kvx", "run": "^TestC11_Laws$", "quick": 200000, "thorough": 30000000},
            {"pkg": "kvx", "run": "^TestC11_Comparer$", "quick": 200000, "thorough": 30000000},
            {"pkg": "kvx", "run": "^TestC11_Engine$", "quick": 400, "thorough": 48000},
        ],
        "floors": {"ge3_blocks": {"quick": 100, "thorough": 2000}},
        "rule": "(a) triples of byte strings (adversarial alphabet {-./01ab~,0x00,0xff} or arbitrary bytes, length 0..12, related by "
                "shared prefixes): antisymmetry, cmp==0 <=> equal bytes, transitivity, agreement with an independent "
                "implementation of the documented slash order; (b) Pebble's Comparer contract on kv.OxiaSlashSpanComparer "
                "(a<=Separator(a,b)<b, a<=Successor(a), AbbreviatedKey monotone, ImmediateSuccessor); (c) real Pebble KV with "
                "40..400 keys x 2..16 KiB values (3..40 storage blocks), 1..5 batches each followed by a flush, deletes in "
                "later batches, optional reopen: exact get of every live key, full iteration, get with all five "
                "comparison types for present/absent probes, forward and reverse range scans against a sorted reference. "
                "Non-trivial: (a,b) first difference at '/', '.', '0'/'-' ; (c) >=3 blocks and an adjacent key pair whose "
                "byte-wise separator differs from both keys. distinct = distinct written-out case.",
        "assumptions": ["Pebble's own compaction schedule is whatever it chooses after each flush (not driven)"],
    },
    "C12": {
        "level": "exploration",
        "tests": [
            {"pkg": "kvx", "run": "^TestC12_Model$", "quick": 2400, "thorough": 120000},
            {"pkg": "e2ex", "run": "^TestC12_E2E$", "quick": 160, "thorough": 6000, "shards": {"quick": 8, "thorough": 16}, "max_per_process": 120},
        ],
        "floors": {"multi_op_one_key": 0.2, "range_over_100": 0.05},
        "rule": "rapid state machine over a real kv.DB driven through the exported callback chain used by leader and follower "
                "(server.WrapperUpdateOperationCallback): requests mixing 0-4 puts, 0-3 deletes, 0-2 delete-ranges on a 3-10 "
                "key pool (same key several times per request, expected versions from {nil,-1,current,stale,never assigned}, "
                "sessions alive/dead, index declarations), bulk phases of 90-140 keys followed by range deletes of 60/99/100/101/120 "
                "keys, session create/close requests, graceful reopen; every response checked by the sequential model "
                "(statuses, strictly increasing version ids, modification counts, timestamps), exact gets of all pool keys "
                "after each step, drawn list/range-scan/comparison-get probes, full ordered dump at the end and after reopen. "
                "Non-trivial: a request with >=2 operations on one key, or a conditional op with a stale version, or a range "
                "delete over >100 keys. distinct = distinct written-out history.",
        "assumptions": [
            "range bounds are non-empty, start<=end, and cannot span the reserved '__oxia/' records (both slash-free or sharing a first segment)",
            "reads whose nearest stored key is a reserved '__oxia/' record are not asserted (the server does not filter them)",
            "when both the expected version and the session check fail either status is accepted",
        ],
    },
    "C13": {
        "level": "exploration",
        "tests": [
            {"pkg": "kvx", "run": "^TestC13_Structured$", "quick": 6000, "thorough": 750000},
            {"pkg": "leaderx", "run": "^TestC13_Replay$", "quick": 600, "thorough": 100000},
        ],
        "floors": {"outside_client_library": 0.25, "non_utf8_string": 0.02},
        "rule": "sequences of 1-12 WriteRequests a client can put on the wire (any bytes in string fields, including strings that are not valid UTF-8 - the server's vtprotobuf codec accepts them; keys outside '__oxia/'), including ones "
                "the project's client never builds: sequence deltas with/without partition key, with expected version, delta 0 / "
                "2^64-1, unknown/closed/arbitrary session ids, index names/keys that are empty, contain '/' or \x01 or are 200 "
                "bytes long, empty keys and values, very long keys, up to 50 puts, delete-ranges with empty/equal/inverted "
                "bounds; applied to two real databases: ProcessWrite must return no error and one status per operation, both "
                "replicas answer identically, the database reopens and both dumps are identical (notification records "
                "compared decoded). Non-trivial: the history contains >=1 operation outside what oxia/ builds. Listed known "
                "findings are re-confirmed by scripted inputs and excluded by construction (counted). Second generator "
                "(TestC13_Replay, leaderx): 2-14 such requests (3 of 4 hostile) sent by 1-4 writers through a real RF=1 "
                "leaderController; a crash image (database after the k-th commit + the WAL as of the end) is restarted: the "
                "node must open, BecomeLeader must replay entries c+1..head without error, a fresh database must accept the "
                "whole decoded log, and both must end in the same state. Non-trivial there: hostile content was in the "
                "replayed part.",
        "assumptions": ["keys that themselves lie inside the reserved prefix are outside the domain (ranges that span it are inside)"],
    },
    "C16": {
        "level": "exploration",
        "tests": [
            {"pkg": "kvx", "run": "^TestC16_Sequences$", "quick": 4000, "thorough": 500000},
        ],
        "floors": {"multi_put_one_prefix": 0.2, "deleted_max": 0.2},
        "rule": "rapid state machine over a real kv.DB: requests with 1-3 well-formed sequence puts over 1-3 prefixes (1-3 deltas, "
                "first>0, occasional 2^40, same prefix several times per request, mixed with plain puts), deletes of the "
                "current maximum, range deletes over part of a sequence, reopen, 0-4 GetSequenceUpdates subscribers attached/"
                "closed at drawn points and (unless excluded by the listed finding) while a put is parked between key "
                "generation and batch commit. Oracle: the model recomputes every generated key (prefix + zero-padded "
                "suffixes of the highest existing key + deltas), checks freshness and monotonicity; after every completed "
                "write a non-blocking drain of each subscriber yields exactly the latest generated key of its prefix or "
                "nothing if none was generated; a new subscriber first sees the highest existing key. Non-trivial: >=2 "
                "sequence puts on one prefix with a delete of the maximum or several puts of one prefix in one request.",
        "assumptions": ["sums of deltas stay below 2^63 (GetSequenceUpdates scans up to MaxInt64)", "'eventually observes' is checked at quiescence after each completed write"],
    },
    "C17": {
        "level": "exploration",
        "tests": [
            {"pkg": "kvx", "run": "^TestC17_Content$", "quick": 3000, "thorough": 320000},
            {"pkg": "leaderx", "run": "^TestC17_Stream$", "quick": 800, "thorough": 60000},
            {"pkg": "clientx", "run": "^TestC17_ClientNotifications$", "quick": 48, "thorough": 1600, "shards": {"quick": 8, "thorough": 16}, "shrinktime": "30s"},
            {"pkg": "e2ex", "run": "^TestC17_E2E$", "quick": 160, "thorough": 6000, "shards": {"quick": 8, "thorough": 16}, "max_per_process": 120},
        ],
        "floors": {"trim_removed": 0.08, "resumed_from_last_seen": 0.05},
        "rule": "rapid state machine over a real kv.DB with notifications enabled: generated write requests (puts+deletes of one "
                "key, range deletes, session create/close requests, empty requests), reads of the stored notification "
                "batches from drawn offsets (resume), trimming rounds through the verif hook under an injected clock with "
                "drawn retention, reopen. Oracle: exactly one batch per applied request, consecutive offsets in order, entry "
                "timestamp, and content equal to the model's net effect of the request (keys written with resulting "
                "version id and created/modified type, removed keys covered by a delete or range entry, nothing for "
                "untouched or internal keys); after a trim every batch with timestamp > now-retention is still served. "
                "Non-trivial: an interior resume after a reopen, or a trim that removed something. Second generator (TestC17_Stream, leaderx): a real RF=1 leaderController with notifications enabled; rapid state machine of writes (generated requests and no-op requests), up to 4 GetNotifications subscribers opened 'from now' or after a drawn offset, subscriber reconnects from the last offset seen, and up to 2 leader restarts (close, reopen, next term) after which every subscriber reconnects from what it saw. Oracle: each subscriber receives exactly the batches of offsets start+1, start+2, ... in order (no gap, duplicate or reordering across reconnects and terms), each batch matches the model's net effect of the request at that offset, a live stream has delivered everything up to the log head within 10 s, a closed leader ends its streams. Non-trivial there: a subscriber resumed at least once and >=2 writes. Third generator (TestC17_ClientNotifications, clientx): the real client library's notification manager (oxia/notifications.go) against a harness server that behaves like the leader's GetNotifications (positioning batch for 'from now', then every batch after the start offset), 1-3 shards, 0-2 batches committed before the subscription, then a script of commits (0-3 keys), up to 2 scripted stream ends and pauses around the client's 1 s reconnect backoff. Oracle: the application channel delivers, per shard, every notification of every batch committed after the subscription was positioned, batch after batch, exactly once; Close() closes the channel. Non-trivial there: a stream ended and was resumed, and something was due. Fourth generator (TestC17_E2E, e2ex): the end-to-end run described under C20 with a GetNotifications subscription open from the start: at the end the application must have received, per key, exactly the changes the model computed (type and version id; one range notification per shard a delete-range was applied on), in order for keys that live on one shard, also across the server restart.",
        "assumptions": ["DB level: stream delivery over a leader and across leader changes is checked by the leaderx/clusterx engines when built",
                        "a put and a later range delete covering it in one request: both entries are accepted (operation order is documented)"],
    },
    "C08": {
        "level": "exploration",
        "tests": [
            {"pkg": "leaderx", "run": "^TestC08_Pipeline$", "quick": 600, "thorough": 100000},
            {"pkg": "leaderx", "run": "^TestC08_Tracker$", "quick": 40000, "thorough": 10000000},
            {"pkg": "e2ex", "run": "^TestC08_E2E$", "quick": 200, "thorough": 8000, "shards": {"quick": 8, "thorough": 16}, "max_per_process": 120},
        ],
        "floors": {"concurrent_writers": 0.005, "duplicate_ack": 0.05},
        "rule": "(a) a real RF=1 LeaderController (real WAL with 4 KiB..1 MiB segments, real Pebble) with 1-12 concurrent writer "
                "goroutines x 1-8 writes; each writer runs a chain of conditional puts on its own key so every response is "
                "attributable; a drawn 0-300 us delay is injected on entry to the wrapped Wal.AppendAndSync (between offset "
                "allocation and append). Oracle: every write succeeds, each response carries the modification count of its own "
                "request, the leader log holds exactly the acknowledged requests at contiguous offsets 0..N-1, version ids grow "
                "with the offset (effects applied in offset order), final records equal the last write of each chain. (b) rapid "
                "state machine on server.NewQuorumAckTracker(rf 1..5, head, commit): NextOffset, in-order AdvanceHeadOffset, "
                "NewCursorAcker(ack<=head), per-cursor in-order Ack with arbitrary duplicate re-acks, WaitForCommitOffsetAsync in "
                "offset order after the append; after every action commit<=head, commit monotone, commit == reference rule "
                "(highest offset whose whole prefix is <= head and acked by >= rf/2 cursors), waiters fire once, in order, only "
                "at/below commit. Non-trivial: (a) >=2 writers with >=2 writes; (b) a duplicate ack and acks out of "
                "cross-follower order. Third generator (TestC08_E2E, e2ex): the real asynchronous client pipelines 5-60 puts (1-3 keys, 1-6 requests per batch, values from a few bytes to 60 KB so that batches close at different points) to a real standalone server through one write stream per shard: every put succeeds, per key the version ids grow in submission order and the modification count by exactly one, and the final value is the last one submitted.",
        "assumptions": ["(a) covers RF=1; multi-follower ack interleavings are covered by the tracker state machine (b)",
                        "a write that does not return within 60 s is inconclusive"],
    },
    "C14": {
        "level": "exploration",
        "tests": [
            {"pkg": "leaderx", "run": "^TestC14_Sessions$", "quick": 800, "thorough": 120000},
            {"pkg": "leaderx", "run": "^TestC14_Expiry$", "quick": 64, "thorough": 1600, "shards": {"quick": 8, "thorough": 16}, "shrinktime": "20s"},
            {"pkg": "e2ex", "run": "^TestC14_ClientSessions$", "quick": 48, "thorough": 1200, "shards": {"quick": 8, "thorough": 16}, "shrinktime": "30s", "max_per_process": 120},
        ],
        "floors": {"takeover": 0.02, "leader_change": 0.15, "session_expired": {"quick": 30, "thorough": 800}},
        "rule": "rapid state machine over a real RF=1 LeaderController with its real SessionManager: CreateSession (<=3 live), "
                "generated writes on a 3-7 key pool under live/dead/no session (takeovers by plain puts and by other sessions, "
                "deletes, range deletes, index declarations), KeepAlive on live and dead sessions, CloseSession, CloseSession "
                "parked right after it listed its keys (gate on the wrapped KV iterator) while other clients overwrite / "
                "take over / delete+re-create the listed keys (excluded while the finding is listed), restart of the node + new "
                "term, new term on the same node. Oracle: responses checked by the model (dead session => "
                "SESSION_DOES_NOT_EXIST), at a session end exactly the records the session owns at that log position "
                "disappear and nothing else changes (full ordered dump compared with the model), live sessions and their "
                "records survive leader changes and still accept heartbeats. Non-trivial: a takeover, a raced close, or a "
                "close plus a leader change. Second generator (TestC14_Expiry, real timers): 1-3 sessions with the smallest accepted timeout (2 s), each with a drawn fate - never kept alive, kept alive for 0.3-1.5 s and then abandoned, or kept alive every 100-500 ms until the end - ephemeral and plain records, take-overs, optionally a leader restart into a new term after 0.2-1.2 s. Oracle: an abandoned session still has its records 0.9 s before its deadline, and 2.5 s after it the records are gone, KeepAlive fails and nothing else changed (full comparison with the model); a kept session (largest heartbeat gap measured by the harness < 1.4 s) never fails a KeepAlive and keeps its records, also across the restart. Non-trivial there: at least one session expired. Third generator (TestC14_ClientSessions, e2ex): the real client library (oxia/sessions.go) against a real standalone server with 1-3 shards: client A (session timeout drawn from 2-6 s) creates 1-4 ephemeral records, client B plain ones, optional take-over in either direction; A stays open for its session timeout + 0.3-1.5 s, optionally with a server restart on the same address in between; then A is closed. Oracle: while A is open the store holds exactly the plain and the ephemeral records, after A.Close() exactly the plain ones (full listing through B).",
        "assumptions": ["session timeout 60 s in this test; expiry timing is not exercised here",
                        "a KeepAlive that does not return within 20 s is inconclusive"],
    },
    "C15": {
        "level": "exploration",
        "tests": [
            {"pkg": "leaderx", "run": "^TestC15_Indexes$", "quick": 1000, "thorough": 75000},
            {"pkg": "e2ex", "run": "^TestC15_E2E$", "quick": 160, "thorough": 6000, "shards": {"quick": 8, "thorough": 16}, "max_per_process": 120},
        ],
        "floors": {"two_indexes_populated": 0.3, "probe_outside_index_range": 0.3},
        "rule": "rapid state machine over a real RF=1 LeaderController: generated writes with 0-2 index declarations per put over "
                "2-4 index names that are neighbours in key order (idx, idx0, idx-, id), secondary keys over the adversarial "
                "alphabet (incl. '/'), overwrites that change/remove declarations, deletes, range deletes, node restart; "
                "queries through the leader's Read/List/RangeScan with secondary_index_name: list and range-scan over drawn "
                "non-empty bounds, get with all five comparison types for probes at, between, before the first and after the "
                "last entry. Oracle: entries derived from the records that exist in the model; results equal the reference "
                "sorted by secondary key (order inside one secondary key free), returned records exist and are the model's, "
                "nothing of another index, absent => KEY_NOT_FOUND. Non-trivial: >=2 populated indexes and a probe outside "
                "[first,last] of its index. Second generator (TestC15_E2E, e2ex): the end-to-end run described under C20; List and RangeScan with UseIndex through the real client over 1-4 shards must return the primary keys of exactly the live records that declare a secondary key in the range (multiset over the consulted shards).",
        "assumptions": ["secondary keys exclude \\x00/\\x01 (reserved by the key layout); index range bounds are non-empty"],
    },
    "C01": {
        "level": "fault_enumeration",
        "tests": [
            {"pkg": "clusterx", "run": "^TestC01_Cluster$", "quick": 160, "thorough": 8400, "shards": {"quick": 5, "thorough": 14}, "shrinktime": "20s", "max_per_process": 150},
        ],
        "floors": {"election_triggered": 0.05},
        "rule": "generated programs of 8-30 steps over a cluster of 3 or 5 real storage nodes (+0-1 spare) and the real coordinator ShardController, all in one process and connected by a harness-owned wire: client writes (put / conditional put / delete / delete-range, each with a unique marker record) and reads sent to the node the client believes to be leader (current, remembered or arbitrary), bursts of 2-4 concurrent operations, isolate / cut link / heal, graceful node restart, node stop/start (minority), 'node unavailable' notifications to the coordinator, coordinator restart from the stored metadata, holding a node's next NewTerm response, late re-delivery of any coordination request sent so far (duplicates, messages of superseded elections), node swap to the spare, settle pauses; WAL segments of 1 KiB..64 KiB so rollovers and truncations cross segments. At the end everything is healed and restarted, a fresh coordinator elects, a final write is issued and the ensemble catches up. Every message, metadata store and client invoke/return is recorded in one ordered history. Oracle (C01): every acknowledged write's marker is in the final leader's log (exactly once) and the final leader's database equals the in-order application of its own log to an empty database (decoded dump comparison). Non-trivial: >=1 acknowledged write and >=1 of {election triggered, restart, partition, swap, coordinator restart}.",
        "assumptions": ["a write that gets no answer within 1.5 s is 'unknown' (may or may not be applied)", 'crashes are graceful stops in this engine (kill -9 images are exercised at the WAL/DB level by C07/C10)', 'a case whose final election does not produce a stable leader within the bound, or in which a node goroutine panicked, is inconclusive (counted)'],
    },
    "C02": {
        "level": "exploration",
        "tests": [
            {"pkg": "clusterx", "run": "^TestC02_Cluster$", "quick": 160, "thorough": 8400, "shards": {"quick": 5, "thorough": 14}, "shrinktime": "20s", "max_per_process": 150},
        ],
        "floors": {"election_triggered": 0.05},
        "rule": "generated programs of 8-30 steps over a cluster of 3 or 5 real storage nodes (+0-1 spare) and the real coordinator ShardController, all in one process and connected by a harness-owned wire: client writes (put / conditional put / delete / delete-range, each with a unique marker record) and reads sent to the node the client believes to be leader (current, remembered or arbitrary), bursts of 2-4 concurrent operations, isolate / cut link / heal, graceful node restart, node stop/start (minority), 'node unavailable' notifications to the coordinator, coordinator restart from the stored metadata, holding a node's next NewTerm response, late re-delivery of any coordination request sent so far (duplicates, messages of superseded elections), node swap to the spare, settle pauses; WAL segments of 1 KiB..64 KiB so rollovers and truncations cross segments. At the end everything is healed and restarted, a fresh coordinator elects, a final write is issued and the ensemble catches up. Every message, metadata store and client invoke/return is recorded in one ordered history. Oracle (C02): the committed log of the final leader is the candidate linearization: no request appears twice; a request refused before its WAL append never appears; each acknowledged response equals what the reference fold yields at its log position; real-time order of non-overlapping writes is respected; every successful read equals the state after some committed prefix inside its real-time window (a read at a node whose term was already superseded in the metadata store may be older, but must still match a committed prefix). Non-trivial: as C01 plus >=1 burst of concurrent operations.",
        "assumptions": ['reads are single-key gets', "unknown-outcome writes count as 'at most once'"],
    },
    "C03": {
        "level": "exploration",
        "tests": [
            {"pkg": "clusterx", "run": "^TestC03_Cluster$", "quick": 160, "thorough": 8400, "shards": {"quick": 5, "thorough": 14}, "shrinktime": "20s", "max_per_process": 150},
            {"pkg": "clusterx", "run": "^TestC03_Follower$", "quick": 600, "thorough": 20000, "shards": {"quick": 4, "thorough": 14}, "shrinktime": "20s"},
        ],
        "floors": {"election_triggered": 0.05},
        "rule": "generated programs of 8-30 steps over a cluster of 3 or 5 real storage nodes (+0-1 spare) and the real coordinator ShardController, all in one process and connected by a harness-owned wire: client writes (put / conditional put / delete / delete-range, each with a unique marker record) and reads sent to the node the client believes to be leader (current, remembered or arbitrary), bursts of 2-4 concurrent operations, isolate / cut link / heal, graceful node restart, node stop/start (minority), 'node unavailable' notifications to the coordinator, coordinator restart from the stored metadata, holding a node's next NewTerm response, late re-delivery of any coordination request sent so far (duplicates, messages of superseded elections), node swap to the spare, settle pauses; WAL segments of 1 KiB..64 KiB so rollovers and truncations cross segments. At the end everything is healed and restarted, a fresh coordinator elects, a final write is issued and the ensemble catches up. Every message, metadata store and client invoke/return is recorded in one ordered history. Oracle (C03): at the instant an Ack leaves a follower (observed on the wire) its durable log head (or the commit offset of its database after a snapshot installation) covers the offset and the stored entry equals what the leader put on that stream (or holds in its log); at the end any two replicas agree on every entry at or below either one's commit offset and replicas with equal commit offset have identical databases. Non-trivial: as C01.",
        "assumptions": ['gated follower-level schedules (sync parked, duplicate re-delivery) are a separate test of this property'],
    },
    "C04": {
        "level": "exploration",
        "tests": [
            {"pkg": "clusterx", "run": "^TestC04_Cluster$", "quick": 160, "thorough": 8400, "shards": {"quick": 5, "thorough": 14}, "shrinktime": "20s", "max_per_process": 150},
            {"pkg": "clusterx", "run": "^TestC04_Follower$", "quick": 600, "thorough": 20000, "shards": {"quick": 4, "thorough": 14}, "shrinktime": "20s"},
        ],
        "floors": {"election_triggered": 0.05},
        "rule": "generated programs of 8-30 steps over a cluster of 3 or 5 real storage nodes (+0-1 spare) and the real coordinator ShardController, all in one process and connected by a harness-owned wire: client writes (put / conditional put / delete / delete-range, each with a unique marker record) and reads sent to the node the client believes to be leader (current, remembered or arbitrary), bursts of 2-4 concurrent operations, isolate / cut link / heal, graceful node restart, node stop/start (minority), 'node unavailable' notifications to the coordinator, coordinator restart from the stored metadata, holding a node's next NewTerm response, late re-delivery of any coordination request sent so far (duplicates, messages of superseded elections), node swap to the spare, settle pauses; WAL segments of 1 KiB..64 KiB so rollovers and truncations cross segments. At the end everything is healed and restarted, a fresh coordinator elects, a final write is issued and the ensemble catches up. Every message, metadata store and client invoke/return is recorded in one ordered history. Oracle (C04): after a node answered NewTerm(T) with head h its WAL head stays at h until an Append / Truncate / snapshot / BecomeLeader of a term >= T is delivered to it (polled after every step); it sends no Ack on a stream of a lower term (acks rejected by the torn-down stream do not count); no write or read invoked at it afterwards is served under a lower term. Non-trivial: as C01.",
        "assumptions": [],
    },
    "C05": {
        "level": "fault_enumeration",
        "tests": [
            {"pkg": "clusterx", "run": "^TestC05_Cluster$", "quick": 160, "thorough": 8400, "shards": {"quick": 5, "thorough": 14}, "shrinktime": "20s", "max_per_process": 150},
            {"pkg": "coordx", "run": "^TestC05_MetaFile$", "quick": 400, "thorough": 24000, "shards": {"quick": 4, "thorough": 16}, "shrinktime": "20s"},
            {"pkg": "leaderx", "run": "^TestC05_TermDurable$", "quick": 1200, "thorough": 60000},
        ],
        "floors": {"election_triggered": 0.03, "killed_inside_store": 0.02},
        "rule": "generated programs of 8-30 steps over a cluster of 3 or 5 real storage nodes (+0-1 spare) and the real coordinator ShardController, all in one process and connected by a harness-owned wire: client writes (put / conditional put / delete / delete-range, each with a unique marker record) and reads sent to the node the client believes to be leader (current, remembered or arbitrary), bursts of 2-4 concurrent operations, isolate / cut link / heal, graceful node restart, node stop/start (minority), 'node unavailable' notifications to the coordinator, coordinator restart from the stored metadata, holding a node's next NewTerm response, late re-delivery of any coordination request sent so far (duplicates, messages of superseded elections), node swap to the spare, settle pauses; WAL segments of 1 KiB..64 KiB so rollovers and truncations cross segments. At the end everything is healed and restarted, a fresh coordinator elects, a final write is issued and the ensemble catches up. Every message, metadata store and client invoke/return is recorded in one ordered history. Oracle (C05) over the recorded coordinator events: every NewTerm/BecomeLeader/AddFollower carries the term of the latest successful metadata store and terms sent never go down, also across coordinator restarts; per term at most one node answers BecomeLeader successfully; every installed leader is a member of the stored ensemble, a majority of that ensemble had answered NewTerm(T) before the request was sent, and its reported head is maximal among the responders in its follower map; a node never answers NewTerm for a term below one it answered before and its reported term never decreases, also across restarts. Non-trivial: as C01. Second generator (TestC05_MetaFile, coordinator crash points INSIDE a metadata write of the file provider): a history of cluster statuses with growing terms, 0-2 stores by earlier incarnations, 1-3 stores by a child process running the real provider under strace with SIGKILL injected just before its k-th system call on the status file (k generated; one locked OS thread so the enumeration is deterministic); a fresh provider must then refuse to start or read exactly the last acknowledged or the in-flight status (never 'no metadata', a lower term or a mix) and be able to store from the version it read. Non-trivial there: the child was killed between the start and the return of a Store. Third generator (TestC05_TermDurable, leaderx): a real leader or follower controller goes through 1-6 NewTerm calls with growing terms, as leader optionally serving writes in between (unflushed memtable content); right after a drawn NewTerm answer the node's directories are copied byte for byte at an instant at which no file changes (what a process kill leaves behind - the database runs without a Pebble WAL) and a fresh controller opened over the copy must know the answered term and refuse any lower one.",
        "assumptions": ['coordinator crash points are restarts between steps (not inside a metadata write)'],
    },
    "C20": {
        "level": "exploration",
        "tests": [
            {"pkg": "clientx", "run": "^TestC20_Mixed$", "quick": 1200, "thorough": 100000},
            {"pkg": "clientx", "run": "^TestC20_FanOut$", "quick": 1200, "thorough": 100000},
            {"pkg": "clientx", "run": "^TestC20_SlowWrites$", "quick": 240, "thorough": 8000},
            {"pkg": "clientx", "run": "^TestC20_AbandonedList$", "quick": 1200, "thorough": 40000},
            {"pkg": "e2ex", "run": "^TestC20_E2E$", "quick": 160, "thorough": 6000, "shards": {"quick": 8, "thorough": 16}, "max_per_process": 120},
        ],
        "rule": "the real public client (oxia.NewAsyncClient, unmodified) over loopback gRPC against harness-owned fake servers "
                "(1 bootstrap + 1-3 leaders per case, 1-6 shards): 5-80 generated calls mixing Put / Delete / DeleteRange / Get with "
                "option mixes and value sizes from 1 B to above the 128 KiB batch limit, linger 0-5 ms, 1-8 requests per batch; "
                "multi-shard List, RangeScan and comparison Get over disjoint per-shard sorted key sets; per-case scripts place "
                "latencies, retriable / non-retriable failures on the batch carrying a chosen operation, and write-stream kills. "
                "The fake server's answer is a function of the operation's own key/value. Oracle: every call completes exactly "
                "once with the answer of that very operation; operations of a failed batch (and only they) get that failure; "
                "batches respect the count and byte limits unless a single oversized call; list = multiset union, range-scan = "
                "sorted merge in the documented key order, comparison get = best candidate across shards; no panic. "
                "Non-trivial: >=2 batches on one shard with a failure in one, or a multi-shard read with >=1 failing shard. "
                "Third generator (TestC20_SlowWrites): request timeout 150 ms, 1-2 shards, mostly writes; the server holds the "
                "(correct) answer of one or two write batches for 170-260 ms while the stream stays alive and answers the "
                "batches behind it in order; following calls are issued at once, just after the timeout, or after the stall. "
                "Any call may end with the timeout; a call that completes successfully must carry its own answer, exactly "
                "once. Non-trivial there: a write timed out on a live stream and a later write on that stream was answered. "
                "Fourth generator (TestC20_AbandonedList): a multi-shard List through the synchronous client (which stops at the "
                "first error) with 0..all shards failing at once or mid-stream, context deadlines of 2 ms - 3 s and the usual "
                "cancel() right after the call: an error or the exact union must come back and the process must survive. "
                "Fifth generator (TestC20_E2E, e2ex): the real synchronous client against a real standalone server with 1-4 shards "
                "and the sequential reference model per shard: puts / deletes / delete-ranges with option mixes (partition keys "
                "routing the same key to different shards, conditions, secondary indexes, sequence deltas), exact and comparison "
                "gets with and without partition key, List and RangeScan (multiset union / global key order), a server restart.",
        "assumptions": ["bounded waits: a call that does not complete within the bound makes the case inconclusive",
                        "a streaming call counts as completed once it delivered an error item"],
    },
    "C18": {
        "level": "exploration",
        "tests": [
            {"pkg": "coordx", "run": "^TestC18_GenerateShards$", "quick": 20000, "thorough": 2000000},
            {"pkg": "coordx", "run": "^TestC18_ConfigHistory$", "quick": 6000, "thorough": 600000},
            {"pkg": "coordx", "run": "^TestC18_Coordinator$", "quick": 240, "thorough": 16000},
            {"pkg": "clientx", "run": "^TestC18_ClientRouting$", "quick": 400, "thorough": 32000},
        ],
        "rule": "(a) sharding.GenerateShards(base, n) for n in 1..4096 (some up to 65536): ranges sorted by min contiguous 0..2^32-1, no overlap, "
                "ids base..base+n-1; (b) histories of 1-12 cluster configs (add/remove namespaces with name reuse, shard counts 1-64, "
                "rf 1-5 <= #servers, growing/shrinking server lists, optional strict anti-affinity) threaded through "
                "utils.ApplyClusterChanges with the real ensemble selector, with deletion of Deleting shards progressing between "
                "steps: per configured namespace the active shards partition 0..2^32-1 (or the namespace was refused as a whole), "
                "shard ids unique cluster-wide and never reused over the history, ShardIdGenerator monotone; (c) the same kind of "
                "history through a real coordinator.NewCoordinator (memory metadata, instantly answering stub nodes): published "
                "assignments checked the same way; (d) the real client library against fake servers: for generated assignments "
                "(1-64 shards) and 200 keys / partition keys per case the shard that receives each Put/Get is the one whose range "
                "contains the repository's 32-bit xxh3 hash of the key, also after a second, different assignment is pushed, "
                "with operations pending across the switch; no panic. Non-trivial: a removal followed by an addition, or a shard "
                "count that does not divide 2^32 (a-c); an assignment switch with pending operations (d).",
        "assumptions": ["rf <= number of servers (nothing validates configs; outside is not asserted)",
                        "coordinator-level waits are bounded; a case that does not quiesce within the bound is inconclusive (counted)"],
    },
    "C19": {
        "level": "exploration",
        "tests": [
            {"pkg": "coordx", "run": "^TestC19_Selector$", "quick": 60000, "thorough": 12000000},
            {"pkg": "coordx", "run": "^TestC19_Balancer$", "quick": 24000, "thorough": 3200000},
        ],
        "rule": "1-12 servers with labels from a 3x3 vocabulary (some servers unlabeled), policies in {none, one strict rule with 1-2 labels, "
                "two strict rules}, rf 1-5 <= #servers, existing placements and load skew. (1) ensemble.NewSelector: the result is rf "
                "pairwise-distinct ids of current servers such that for every strict rule no two members agree on all of its labels "
                "(weakest reading), or an error; with no policy it must succeed. (2) real balancer.NewLoadBalancer rounds after "
                "removing 1-2 servers or adding empty ones: every SwapNodeAction moves one member, From is in the shard's ensemble as "
                "updated by the earlier actions of the round, To is a current server not already in it; after the round every "
                "ensemble has rf distinct members and satisfies the strict rules; the round ends. Non-trivial: a strict rule that "
                "excludes an otherwise eligible server, or a round with >=2 actions on one shard.",
        "assumptions": ["swaps are applied with a model of the shard controller's replaceInList",
                        "a round that does not end within the harness watchdog is inconclusive unless a panic was observed"],
    },
    "C06": {
        "level": "exploration",
        "tests": [
            {"pkg": "clusterx", "run": "^TestC06_Routes$", "quick": 200, "thorough": 36000, "shards": {"quick": 4, "thorough": 14}, "shrinktime": "20s"},
        ],
        "floors": {"snapshot_installed": 0.1, "rich_ops": 0.5},
        "rule": "a 3-node cluster (real nodes, real coordinator) with a drawn snapshot chunk size (1 B..1 MiB) receives 4-25 generated rich "
                "requests (puts/deletes/range deletes, index declarations, well-formed sequence puts, puts under sessions created and "
                "closed through the real session manager) through its leader, while one follower streams the log live, may restart in "
                "the middle, and a late joiner (stopped before the first write) installs a snapshot and replays the rest. Oracle: the "
                "full decoded dump of every replica (all stored records incl. session, index, bookkeeping and notification records; "
                "node-local term records excluded) equals the in-order application of the leader's log 0..c to an empty database, c "
                "being that replica's own commit offset. Non-trivial: >=3 routes compared and >=1 session / sequence / index / range "
                "operation. Crash-image replay as a further route is checked under C07.",
        "assumptions": ["leadership does not move during a case (cases where it does are inconclusive)",
                        "the reference fold uses the real ProcessWrite (semantic correctness of single operations is C12's job)"],
    },
    "C07": {
        "level": "fault_enumeration",
        "tests": [
            {"pkg": "leaderx", "run": "^TestC07_CrashReplay$", "quick": 1200, "thorough": 240000},
            {"pkg": "leaderx", "run": "^TestC07_KillImage$", "quick": 2400, "thorough": 120000},
        ],
        "floors": {"image_inside_run": {"quick": 600, "thorough": 100000}, "log_trimmed_before_the_kill": {"quick": 60, "thorough": 3000}},
        "rule": "an RF=1 leader with 1-4 concurrent writers applies 2-14 generated rich requests; right after the k-th Pebble batch "
                "commit (k drawn over all commits of the run; observed by wrapping WriteBatch.Commit) the harness takes a consistent "
                "database image (KV.Snapshot = flush + Pebble checkpoint, i.e. the state a kill -9 can leave, because Pebble's own WAL "
                "is disabled and memtables hold whole batches) and later a byte copy of the WAL directory. Oracle: c = commit offset "
                "stored in the image <= last log offset; decoded dump(image) == in-order application of entries 0..c to an empty "
                "database; a node restarted over (image, WAL copy) becomes leader, replays, and its dump equals the application of the "
                "whole log with commit offset = last offset (version ids and modification counts make a skipped, repeated or "
                "reordered entry visible). Non-trivial: the image lies strictly inside the run or >=2 writers were in flight. Second generator (TestC07_KillImage): the physical image a process kill leaves behind - the database runs without a Pebble WAL, so it is the last flushed database state plus the Oxia log. An RF=1 leader whose log uses an injected clock: writes over several 1-4 KiB segments, clock jumps of 10-90 min, explicit trimming rounds (retention 1 h), new terms on the same node (which flush the database); at the end the node's directories are copied byte for byte at an instant at which no file changes and a fresh node is started over the copy: it must become leader and its database must equal the fold of every acknowledged entry (recorded before any trimming). Non-trivial there: the restarted node had to replay entries that were not in the flushed database.",
        "assumptions": ["crash points are Pebble-commit granular; crash points inside a Pebble flush/compaction are Pebble's atomicity (trusted)",
                        "WAL-level power-loss images are C10's domain"],
    },
}
