#!/usr/bin/env python3
"""Regenerates MANIFEST.json from checks_config.py + manifest_meta.py (kept valid at all times)."""
import json, os, subprocess, sys
ROOT = os.path.dirname(os.path.abspath(__file__))
sys.path.insert(0, ROOT)
from checks_config import CHECKS
from manifest_meta import META, NOT_APPLICABLE, ENGINES, NOTES

hooks_commits = subprocess.run(["git", "-C", "/repo", "log", "--format=%H %s"], stdout=subprocess.PIPE, text=True).stdout.splitlines()
hook_commits = [l.split()[0] for l in hooks_commits if l.split(" ", 1)[1].startswith("verif hook")]
checks = []
for pid in sorted(CHECKS):
    m = META[pid]
    checks.append({
        "property_id": pid,
        "quick_cmd": "./check quick %s" % pid,
        "thorough_cmd": "./check thorough %s" % pid,
        "evidence_file": "/verif/evidence/%s.json" % pid,
        "replay_cmd_template": "./check replay %s {path}" % pid,
        "engine": m["engine"],
        "level_claimed": {"category": CHECKS[pid]["level"], "text": m["level_text"], "design_ref": m["design_ref"]},
        "level_note": m["level_note"],
        "technique": m["technique"],
    })
manifest = {
    "version": 1,
    "setup_cmd": "./check setup",
    "hooks": {
        "guard": "verif",
        "enable": "go build tag: the harness module (replace github.com/oxia-db/oxia => /repo) is built with `go test -tags verif`; hook files are new files carrying //go:build verif",
        "baseline_off_cmd": "cd /repo && GOFLAGS=-mod=mod go test -json -vet=off -count=1 -timeout 25m ./...",
        "source_commits": hook_commits,
        "add_only": True,
    },
    "engines": ENGINES,
    "checks": checks,
    "not_applicable": [{"property_id": p, "reason": r} for p, r in sorted(NOT_APPLICABLE.items()) if p not in CHECKS],
    "notes": NOTES,
}
json.dump(manifest, open(os.path.join(ROOT, "MANIFEST.json"), "w"), indent=1)
try:
    import jsonschema
    jsonschema.validate(manifest, json.load(open("/root/.vp/MANIFEST.schema.json")))
    print("MANIFEST.json valid,", len(checks), "checks,", len(manifest["not_applicable"]), "not applicable")
except ImportError:
    print("jsonschema not available; not validated")
