package clientx

// C17, client side (oxia/notifications.go): "a subscriber that reconnects with the last offset it saw ... continues
// with the next batch without loss or duplication". The real client library is pointed at a harness-owned server
// that behaves like the leader's GetNotifications (positioning batch for a subscription "from now", then every
// batch after the start offset in order; the behaviour of the real leader is checked separately by TestC17_Stream).
// A generated script commits batches on 1-3 shards and ends notification streams at drawn points; the application
// channel must deliver, per shard, every notification of every batch committed after the subscription was
// positioned, batch after batch, exactly once.

import (
	"fmt"
	"net"
	"sort"
	"strings"
	"sync"
	"testing"
	"time"

	"google.golang.org/grpc"
	"google.golang.org/grpc/codes"
	"google.golang.org/grpc/status"
	"pgregory.net/rapid"

	"github.com/oxia-db/oxia/oxia"
	"github.com/oxia-db/oxia/proto"

	"verifharness/evid"
)

type notifShard struct {
	id      int64
	batches []*proto.NotificationBatch // index = offset
	epoch   int                        // bumped by kill: streams of an older epoch end with an error
}

type notifServer struct {
	proto.UnimplementedOxiaClientServer
	mu     sync.Mutex
	cond   *sync.Cond
	addr   string
	shards map[int64]*notifShard
	assign *proto.ShardAssignments
	done   bool
	// per shard: the requests received, in order ("from now" = nil)
	requests map[int64][]string
	// per shard: offset at which the very first subscription was positioned
	positioned map[int64]int64
}

func (s *notifServer) GetShardAssignments(_ *proto.ShardAssignmentsRequest, stream proto.OxiaClient_GetShardAssignmentsServer) error {
	if err := stream.Send(s.assign); err != nil {
		return err
	}
	<-stream.Context().Done()
	return nil
}

func (s *notifServer) GetNotifications(req *proto.NotificationsRequest, stream proto.OxiaClient_GetNotificationsServer) error {
	s.mu.Lock()
	sh := s.shards[req.Shard]
	if sh == nil {
		s.mu.Unlock()
		return status.Error(codes.InvalidArgument, "unknown shard")
	}
	epoch := sh.epoch
	var pos int64
	if req.StartOffsetExclusive == nil {
		pos = int64(len(sh.batches)) - 1
		s.requests[sh.id] = append(s.requests[sh.id], fmt.Sprintf("from-now(positioned at %d)", pos))
		if _, ok := s.positioned[sh.id]; !ok {
			s.positioned[sh.id] = pos
		}
		s.mu.Unlock()
		// like the leader: a first batch that only carries the position
		if err := stream.Send(&proto.NotificationBatch{Shard: sh.id, Offset: pos}); err != nil {
			return err
		}
		s.mu.Lock()
	} else {
		pos = *req.StartOffsetExclusive
		s.requests[sh.id] = append(s.requests[sh.id], fmt.Sprintf("after(%d)", pos))
		if _, ok := s.positioned[sh.id]; !ok {
			s.positioned[sh.id] = pos
		}
	}
	// wake up when the client goes away
	go func() {
		<-stream.Context().Done()
		s.mu.Lock()
		s.cond.Broadcast()
		s.mu.Unlock()
	}()
	for {
		for !s.done && sh.epoch == epoch && stream.Context().Err() == nil && int64(len(sh.batches))-1 <= pos {
			s.cond.Wait()
		}
		if s.done || stream.Context().Err() != nil {
			s.mu.Unlock()
			return nil
		}
		if sh.epoch != epoch {
			s.mu.Unlock()
			return status.Error(codes.Unavailable, "scripted end of the notification stream")
		}
		nb := sh.batches[pos+1]
		s.mu.Unlock()
		if err := stream.Send(nb); err != nil {
			return err
		}
		pos++
		s.mu.Lock()
	}
}

func runC17Client(t *rapid.T) {
	lis, err := net.Listen("tcp", "127.0.0.1:0")
	if err != nil {
		t.Skip("inconclusive: cannot listen: " + err.Error())
	}
	srv := &notifServer{addr: lis.Addr().String(), shards: map[int64]*notifShard{}, requests: map[int64][]string{}, positioned: map[int64]int64{}}
	srv.cond = sync.NewCond(&srv.mu)
	nShards := rapid.IntRange(1, 3).Draw(t, "nShards")
	var infos []shardInfo
	for i, r := range equalRanges(uint32(nShards)) {
		id := int64(i)
		srv.shards[id] = &notifShard{id: id}
		infos = append(infos, shardInfo{id: id, min: r[0], max: r[1], leader: srv.addr})
	}
	srv.assign = toAssignments(infos, identityOrder(len(infos)))
	gs := grpc.NewServer()
	proto.RegisterOxiaClientServer(gs, srv)
	go func() { _ = gs.Serve(lis) }()
	defer func() {
		srv.mu.Lock()
		srv.done = true
		srv.cond.Broadcast()
		srv.mu.Unlock()
		gs.Stop()
	}()

	var hist []string
	logf := func(f string, a ...any) { hist = append(hist, fmt.Sprintf(f, a...)) }
	seq := 0
	commit := func(shard int64, nKeys int) {
		srv.mu.Lock()
		sh := srv.shards[shard]
		off := int64(len(sh.batches))
		nb := &proto.NotificationBatch{Shard: shard, Offset: off, Timestamp: uint64(1000 + off), Notifications: map[string]*proto.Notification{}}
		for i := 0; i < nKeys; i++ {
			seq++
			v := int64(seq)
			nb.Notifications[fmt.Sprintf("s%d/o%d/k%d", shard, off, i)] = &proto.Notification{Type: proto.NotificationType_KEY_CREATED, VersionId: &v}
		}
		sh.batches = append(sh.batches, nb)
		srv.cond.Broadcast()
		srv.mu.Unlock()
		logf("commit(shard %d offset %d keys %d)", shard, off, nKeys)
	}
	// content before the subscription exists
	for id := range srv.shards {
		for i, n := 0, rapid.IntRange(0, 2).Draw(t, "preBatches"); i < n; i++ {
			commit(id, rapid.IntRange(0, 2).Draw(t, "preKeys"))
		}
	}
	cl, err := oxia.NewSyncClient(srv.addr, oxia.WithRequestTimeout(5*time.Second))
	if err != nil {
		t.Skip("inconclusive: client: " + err.Error())
	}
	defer cl.Close()
	ns, err := cl.GetNotifications()
	if err != nil {
		t.Skip("inconclusive: GetNotifications: " + err.Error())
	}
	logf("subscribed")
	var mu sync.Mutex
	var got []*oxia.Notification
	collected := make(chan struct{})
	go func() {
		defer close(collected)
		for n := range ns.Ch() {
			mu.Lock()
			got = append(got, n)
			mu.Unlock()
		}
	}()

	kills, killedBeforeFirst := 0, false
	nSteps := rapid.IntRange(2, 10).Draw(t, "nSteps")
	for i := 0; i < nSteps; i++ {
		shard := int64(rapid.IntRange(0, nShards-1).Draw(t, "shard"))
		switch rapid.IntRange(0, 5).Draw(t, "step") {
		case 0, 1, 2:
			commit(shard, rapid.IntRange(0, 3).Draw(t, "keys"))
		case 3:
			if kills >= 2 {
				continue
			}
			kills++
			srv.mu.Lock()
			sh := srv.shards[shard]
			sh.epoch++
			if int64(len(sh.batches))-1 == srv.positioned[shard] {
				killedBeforeFirst = true
			}
			srv.cond.Broadcast()
			srv.mu.Unlock()
			logf("endStream(shard %d)", shard)
		case 4:
			d := rapid.IntRange(1, 30).Draw(t, "pauseMs")
			time.Sleep(time.Duration(d) * time.Millisecond)
		case 5:
			if kills > 0 {
				// let the client's reconnect (1 s initial backoff, +-50%) happen in the middle of the script
				time.Sleep(1600 * time.Millisecond)
				logf("pause 1.6s")
			}
		}
	}
	// what must arrive: per shard, the keys of every batch after the position of the first subscription
	srv.mu.Lock()
	type exp struct {
		key   string
		batch int64
	}
	want := map[int64][]exp{}
	total := 0
	for id, sh := range srv.shards {
		p0, ok := srv.positioned[id]
		if !ok {
			srv.mu.Unlock()
			t.Fatalf("C17: GetNotifications() returned although shard %d was never subscribed; history=%v", id, hist)
		}
		for _, nb := range sh.batches {
			if nb.Offset <= p0 {
				continue
			}
			var ks []string
			for k := range nb.Notifications {
				ks = append(ks, k)
			}
			sort.Strings(ks)
			for _, k := range ks {
				want[id] = append(want[id], exp{k, nb.Offset})
				total++
			}
		}
	}
	srv.mu.Unlock()
	deadline := time.Now().Add(12 * time.Second)
	for time.Now().Before(deadline) {
		mu.Lock()
		n := len(got)
		mu.Unlock()
		if n >= total {
			break
		}
		time.Sleep(20 * time.Millisecond)
	}
	time.Sleep(50 * time.Millisecond) // room for a duplicate to show up
	mu.Lock()
	recv := append([]*oxia.Notification(nil), got...)
	mu.Unlock()
	srv.mu.Lock()
	reqs := fmt.Sprintf("%v", srv.requests)
	srv.mu.Unlock()
	// exactly once + batch order per shard
	seen := map[string]int{}
	lastBatch := map[int64]int64{}
	batchOf := map[string]int64{}
	shardOf := map[string]int64{}
	for id, es := range want {
		for _, e := range es {
			batchOf[e.key] = e.batch
			shardOf[e.key] = id
		}
		lastBatch[id] = -1 << 62
	}
	for _, n := range recv {
		b, ok := batchOf[n.Key]
		if !ok {
			t.Fatalf("C17: the application received a notification for %q, which is not in any batch after the subscription's position; requests seen by the server=%s; history=%v", n.Key, reqs, hist)
		}
		seen[n.Key]++
		if seen[n.Key] > 1 {
			t.Fatalf("C17: the application received the notification for %q twice (a batch was re-delivered after a reconnect); requests seen by the server=%s; history=%v", n.Key, reqs, hist)
		}
		id := shardOf[n.Key]
		if b < lastBatch[id] {
			t.Fatalf("C17: shard %d: the notification %q of batch %d arrived after one of batch %d; requests=%s; history=%v", id, n.Key, b, lastBatch[id], reqs, hist)
		}
		lastBatch[id] = b
	}
	var missing []string
	for _, es := range want {
		for _, e := range es {
			if seen[e.key] == 0 {
				missing = append(missing, e.key)
			}
		}
	}
	if len(missing) > 0 {
		sort.Strings(missing)
		t.Fatalf("C17: the application never received %d of %d notifications committed after the subscription was positioned (12 s after the last step): %v; requests seen by the server (per shard, in order)=%s; history=%v",
			len(missing), total, missing, reqs, hist)
	}
	_ = ns.Close()
	select {
	case <-collected:
	case <-time.After(5 * time.Second):
		t.Fatalf("C17: the notification channel was not closed by Close(); history=%v", hist)
	}
	var labels []string
	if kills > 0 {
		labels = append(labels, "stream_ended_and_resumed")
	}
	if killedBeforeFirst {
		labels = append(labels, "stream_ended_before_any_batch")
	}
	if nShards > 1 {
		labels = append(labels, "several_shards")
	}
	evid.Case("C17", kills > 0 && total > 0, "client "+strings.Join(hist, "; "), labels...)
}

func TestC17_ClientNotifications(t *testing.T) {
	rapid.Check(t, runC17Client)
}
