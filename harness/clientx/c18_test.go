package clientx

// C18 (client-side routing clause): the shard id under which the servers see an operation is the one
// whose hash range contains the 32-bit xxh3 hash of the routing key (partition key if given, else the
// key); after a different assignment is pushed on the assignment stream, routing follows it.

import (
	"context"
	"fmt"
	"os"
	"strings"
	"sync"
	"testing"
	"time"
	"unicode/utf8"

	"pgregory.net/rapid"

	"github.com/oxia-db/oxia/common/hash"
	"github.com/oxia-db/oxia/oxia"

	"verifharness/evid"
	"verifharness/gen"
)

const (
	kfPendingOnRemovedShard = "C18:operation-pending-while-its-shard-is-removed-panics"
	c18Keys                 = 200
)

func drawRoutingKey(t *rapid.T, label string) string {
	switch rapid.IntRange(0, 5).Draw(t, label+"Kind") {
	case 0:
		return gen.Key().Draw(t, label)
	case 1:
		s := rapid.StringN(1, 12, 40).Draw(t, label+"Uni")
		if utf8.ValidString(s) && !strings.HasPrefix(s, "__oxia/") {
			return s
		}
		return "u"
	case 2:
		return strings.Repeat(gen.Key().Draw(t, label), rapid.IntRange(2, 60).Draw(t, label+"Rep"))
	case 3:
		return fmt.Sprintf("key-%d", rapid.IntRange(0, 1<<30).Draw(t, label+"Num"))
	case 4:
		return gen.Key().Draw(t, label+"A") + "/" + gen.Key().Draw(t, label+"B") + "/" + gen.Key().Draw(t, label+"C")
	}
	return fmt.Sprintf("%c%d", 'a'+rune(rapid.IntRange(0, 25).Draw(t, label+"L")), rapid.IntRange(0, 999).Draw(t, label+"S"))
}

type routedOp struct {
	key  string
	pk   *string
	put  bool
	id   string
	n    int
	done bool
	pan  any
}

func (o *routedOp) routingKey() string {
	if o.pk != nil {
		return *o.pk
	}
	return o.key
}

func (o *routedOp) String() string {
	k := "get"
	if o.put {
		k = "put"
	}
	return fmt.Sprintf("%s %q pk=%s hash=%d", k, o.key, strs(o.pk), keyHash(o.routingKey()))
}

func (o *routedOp) issue(ctx context.Context, cl oxia.AsyncClient, wg *sync.WaitGroup) {
	defer func() {
		if r := recover(); r != nil {
			o.pan = r
		}
	}()
	o.n, o.done = 0, false
	if o.put {
		var opts []oxia.PutOption
		if o.pk != nil {
			opts = append(opts, oxia.PartitionKey(*o.pk))
		}
		ch := cl.Put(o.key, []byte("v"), opts...)
		wg.Add(1)
		go func() { defer wg.Done(); r, c := collect(ctx, ch); o.n, o.done = len(r), c }()
		return
	}
	var opts []oxia.GetOption
	if o.pk != nil {
		opts = append(opts, oxia.PartitionKey(*o.pk))
	}
	ch := cl.Get(o.key, opts...)
	wg.Add(1)
	go func() { defer wg.Done(); r, c := collect(ctx, ch); o.n, o.done = len(r), c }()
}

func fmtShards(shards []shardInfo) string {
	if len(shards) > 8 {
		return fmt.Sprintf("%d shards ids %d..%d (equal ranges)", len(shards), shards[0].id, shards[len(shards)-1].id)
	}
	var s []string
	for _, x := range shards {
		s = append(s, fmt.Sprintf("%d[%d..%d]", x.id, x.min, x.max))
	}
	return strings.Join(s, " ")
}

// runRound issues all operations, waits for them and checks where the servers saw them.
func runRound(t *rapid.T, ctx context.Context, cl oxia.AsyncClient, fc *fakeCase, ops []*routedOp, byId map[string]*routedOp, shards []shardInfo, round string, hist []string) {
	from := 0
	fc.set(func() { from = len(fc.log) })
	var wg sync.WaitGroup
	for _, o := range ops {
		o.issue(ctx, cl, &wg)
		if o.pan != nil {
			t.Fatalf("C18: %s: the client panicked on %s: %v; history=%v", round, o, o.pan, hist)
		}
	}
	wg.Wait()
	for _, o := range ops {
		if !o.done {
			t.Skip("inconclusive: an operation did not complete within the bound")
		}
		if o.n != 1 {
			t.Fatalf("C18: %s: %s delivered %d results; history=%v", round, o, o.n, hist)
		}
	}
	recs, violations := fc.snapshot()
	if len(violations) > 0 {
		t.Fatalf("C18: %s: malformed or misdirected requests reached the servers: %v; history=%v", round, violations, hist)
	}
	seen := map[string]bool{}
	for _, r := range recs[from:] {
		for _, op := range r.ops {
			o := byId[op.id]
			if o == nil {
				continue
			}
			seen[op.id] = true
			if want := route(shards, o.routingKey()); r.shard != want {
				t.Fatalf("C18: %s: %s reached the servers under shard %d, the range containing its hash belongs to shard %d; assignment=%s; history=%v",
					round, o, r.shard, want, fmtShards(shards), hist)
			}
		}
	}
	for _, o := range ops {
		if !seen[o.id] {
			t.Fatalf("C18: %s: %s completed but never reached a server; history=%v", round, o, hist)
		}
	}
}

func runC18(t *rapid.T) {
	fc, err := newFakeCase(rapid.IntRange(1, 3).Draw(t, "nLeaders"))
	if err != nil {
		t.Skip("inconclusive: cannot create loopback servers: " + err.Error())
	}
	defer fc.stop()
	n1 := rapid.IntRange(1, 64).Draw(t, "nShards1")
	n2 := rapid.IntRange(1, 64).Draw(t, "nShards2")
	base1 := rapid.SampledFrom([]int64{0, 5, 100}).Draw(t, "base1")
	base2 := base1 + 64 + int64(rapid.IntRange(0, 100).Draw(t, "base2"))
	shards1 := makeShards(t, equalRanges(uint32(n1)), base1, fc.leaders)
	shards2 := makeShards(t, equalRanges(uint32(n2)), base2, fc.leaders)
	linger := time.Duration(rapid.IntRange(0, 1).Draw(t, "lingerMs")) * time.Millisecond
	inflight := rapid.IntRange(0, 3).Draw(t, "operationsPendingAtSwitch") == 0
	if inflight && evid.Known(kfPendingOnRemovedShard) {
		evid.Excluded("C18", kfPendingOnRemovedShard)
		inflight = false
	}

	var ops []*routedOp
	byId := map[string]*routedOp{}
	withPk := 0
	for i := 0; i < c18Keys; i++ {
		o := &routedOp{key: drawRoutingKey(t, "key"), put: rapid.Bool().Draw(t, "put")}
		if rapid.IntRange(0, 3).Draw(t, "hasPk") == 0 {
			pk := drawRoutingKey(t, "pk")
			o.pk = &pk
			withPk++
		}
		for {
			o.id = getId(o.key, 0)
			if o.put {
				o.id = putId(o.key)
			}
			if byId[o.id] == nil {
				break
			}
			o.key += fmt.Sprintf("#%d", i)
		}
		byId[o.id] = o
		ops = append(ops, o)
		if keyHash(o.routingKey()) != hash.Xxh332(o.routingKey()) {
			t.Fatalf("C18: the repository's hash of %q is %d, xxh3 (low 32 bits) is %d", o.routingKey(), hash.Xxh332(o.routingKey()), keyHash(o.routingKey()))
		}
	}
	hist := []string{fmt.Sprintf("linger=%v first=%s second=%s pendingAtSwitch=%v", linger, fmtShards(shards1), fmtShards(shards2), inflight)}
	desc := hist[0]
	for _, o := range ops {
		desc += "; " + o.String()
	}

	fc.set(func() { fc.assign = toAssignments(shards1, identityOrder(n1)) })
	cl, err := oxia.NewAsyncClient(fc.bootstrap, oxia.WithBatchLinger(linger), oxia.WithRequestTimeout(requestTimeout))
	if err != nil {
		t.Skip("inconclusive: client cannot be created: " + err.Error())
	}
	defer func() { _ = cl.Close() }()
	ctx, cancel := context.WithTimeout(context.Background(), collectBound)
	defer cancel()

	runRound(t, ctx, cl, fc, ops, byId, shards1, "first assignment", hist)

	// second assignment: all shards re-created under other ids
	var pending []*routedOp
	var pwg sync.WaitGroup
	if inflight {
		fmt.Fprintf(os.Stderr, "C18-JOURNAL: pushing a new assignment while operations are pending (%s); history=%v\n", kfPendingOnRemovedShard, hist)
		for i := 0; i < 20; i++ {
			o := &routedOp{key: fmt.Sprintf("pending-%d", i), put: i%2 == 0}
			pending = append(pending, o)
			o.issue(ctx, cl, &pwg)
			if o.pan != nil {
				t.Fatalf("C18: the client panicked on %s: %v; history=%v", o, o.pan, hist)
			}
		}
	}
	fc.push(toAssignments(shards2, identityOrder(n2)))
	pwg.Wait()
	for _, o := range pending {
		if !o.done {
			t.Skip("inconclusive: an operation pending at the switch did not complete within the bound")
		}
		if o.n != 1 {
			t.Fatalf("C18: %s, pending while the assignment changed, delivered %d results; history=%v", o, o.n, hist)
		}
	}
	// wait (bounded) until the client routes by the new assignment; no operation is kept pending meanwhile
	switched := false
	for i := 0; i < 40 && !switched; i++ {
		time.Sleep(25 * time.Millisecond)
		p := &routedOp{key: fmt.Sprintf("probe-%d", i)}
		p.id = getId(p.key, 0)
		var wg sync.WaitGroup
		p.issue(ctx, cl, &wg)
		if p.pan != nil {
			t.Fatalf("C18: the client panicked on %s after the second assignment was pushed: %v; history=%v", p, p.pan, hist)
		}
		wg.Wait()
		recs, _ := fc.snapshot()
		for _, r := range recs {
			for _, op := range r.ops {
				if op.id == p.id && r.shard >= base2 {
					switched = true
				}
			}
		}
	}
	if !switched {
		t.Skip("inconclusive: the client did not pick up the second assignment within the bound")
	}
	runRound(t, ctx, cl, fc, ops, byId, shards2, "second assignment", hist)

	labels := []string{"switch_verified"}
	if withPk > 0 {
		labels = append(labels, "with_partition_key")
	}
	if inflight {
		labels = append(labels, "operations_pending_at_switch")
	}
	if n1 != n2 {
		labels = append(labels, "shard_count_changed")
	}
	evid.Case("C18", n1 >= 2 || n2 >= 2, desc, labels...)
}

func TestC18_ClientRouting(t *testing.T) {
	rapid.Check(t, runC18)
}
