package clientx

// C20: "each operation completes exactly once ... no matter how ... interleaved with failures": a multi-shard List
// consumed the way the synchronous client does - stop at the first error, then cancel the context (the usual
// `defer cancel()`) - while other shards are still answering or failing. The call must return an error or the
// union of the shards' keys, and the client process must survive it (a panic on one of the library's goroutines
// kills the process: the driver attributes it to the library frame that raised it).

import (
	"context"
	"fmt"
	"os"
	"sort"
	"strings"
	"testing"
	"time"

	"google.golang.org/grpc/codes"
	"pgregory.net/rapid"

	"github.com/oxia-db/oxia/oxia"

	"verifharness/evid"
	"verifharness/gen"
	"verifharness/model"
)

func runC20Abandon(t *rapid.T) {
	nLead := rapid.IntRange(1, 2).Draw(t, "nLeaders")
	fc, err := newFakeCase(nLead)
	if err != nil {
		t.Skip("inconclusive: cannot create loopback servers: " + err.Error())
	}
	defer fc.stop()
	nShards := rapid.IntRange(2, 5).Draw(t, "nShards")
	shards := makeShards(t, equalRanges(uint32(nShards)), 0, fc.leaders)
	stored := map[int64][]string{}
	for _, k := range gen.Pool(t, 0, 12) {
		s := shards[rapid.IntRange(0, len(shards)-1).Draw(t, "holder")].id
		stored[s] = append(stored[s], k)
	}
	for s := range stored {
		sortKeys(stored[s])
	}
	a, b := "", "~~/~~/~~/~~"
	nFail := rapid.IntRange(0, nShards).Draw(t, "nFailingShards")
	var hist []string
	fails := map[int64]*inject{}
	for _, sh := range pickShards(t, shardIds(shards), nFail) {
		fails[sh] = &inject{code: rapid.SampledFrom([]codes.Code{codes.Unavailable, codes.Internal, codes.InvalidArgument}).Draw(t, "code"),
			mode: rapid.IntRange(0, 1).Draw(t, "mode"), times: injectForever}
	}
	fc.set(func() {
		fc.assign = toAssignments(shards, identityOrder(len(shards)))
		fc.chunk = rapid.IntRange(1, 3).Draw(t, "chunk")
		for _, s := range shards {
			fc.lat[s.id] = latency{list: time.Duration(rapid.IntRange(0, 8).Draw(t, "latMs")) * time.Millisecond}
			fc.stored[s.id] = stored[s.id]
			if in := fails[s.id]; in != nil {
				cp := *in
				fc.poison[at(listId(a, b), s.id)] = &cp
			}
			hist = append(hist, fmt.Sprintf("shard %d lat=%v holds=%q fail=%v", s.id, fc.lat[s.id].list, stored[s.id], fails[s.id]))
		}
	})
	cl, err := oxia.NewSyncClient(fc.bootstrap, oxia.WithRequestTimeout(3*time.Second))
	if err != nil {
		t.Skip("inconclusive: client cannot be created: " + err.Error())
	}
	defer cl.Close()
	fmt.Fprintf(os.Stderr, "C20-JOURNAL: multi-shard List consumed up to the first error, then context cancelled; history=%v\n", hist)
	timeout := time.Duration(rapid.SampledFrom([]int{2, 5, 20, 3000}).Draw(t, "ctxTimeoutMs")) * time.Millisecond
	ctx, cancel := context.WithTimeout(context.Background(), timeout)
	keys, lerr := cl.List(ctx, a, b)
	cancel()
	// room for the goroutines the call left behind to run into whatever they run into
	time.Sleep(time.Duration(rapid.IntRange(1, 25).Draw(t, "afterMs")) * time.Millisecond)
	if lerr == nil {
		if nFail > 0 {
			t.Fatalf("C20: List (context deadline %v) returned %q without error although %d shards answer with a failure; history=%v", timeout, keys, nFail, hist)
		}
		var want []string
		for _, ks := range stored {
			want = append(want, keysInRange(ks, a, b)...)
		}
		sort.Slice(want, func(i, j int) bool { return model.CompareKeys(want[i], want[j]) < 0 })
		got := append([]string(nil), keys...)
		sort.Slice(got, func(i, j int) bool { return model.CompareKeys(got[i], got[j]) < 0 })
		if strings.Join(got, "\x00") != strings.Join(want, "\x00") {
			t.Fatalf("C20: List (context deadline %v) returned %q without error, the shards hold %q; history=%v", timeout, keys, want, hist)
		}
	}
	var labels []string
	if nFail >= 2 {
		labels = append(labels, "two_or_more_failing_shards")
	}
	if lerr != nil {
		labels = append(labels, "list_ended_with_error")
	}
	if timeout < 100*time.Millisecond {
		labels = append(labels, "short_context_deadline")
	}
	evid.Case("C20", nFail >= 2 || (lerr != nil && nShards > 1), "abandon "+strings.Join(hist, "; ")+fmt.Sprintf(" ctx=%v err=%v", timeout, lerr), labels...)
}

func shardIds(ss []shardInfo) []int64 {
	var out []int64
	for _, s := range ss {
		out = append(out, s.id)
	}
	return out
}

func TestC20_AbandonedList(t *testing.T) {
	rapid.Check(t, runC20Abandon)
}
