package clientx

// C20 - client batching and fan-out are transparent. The REAL public async client talks to scripted
// fake servers; every result is checked against the fake server's answer for that very operation.

import (
	"bytes"
	"context"
	"errors"
	"fmt"
	"math"
	"os"
	"sort"
	"strings"
	"sync"
	"testing"
	"time"

	"github.com/zeebo/xxh3"
	"google.golang.org/grpc/codes"
	"pgregory.net/rapid"

	"github.com/oxia-db/oxia/oxia"
	"github.com/oxia-db/oxia/proto"

	"verifharness/evid"
	"verifharness/gen"
	"verifharness/model"
)

const (
	kfTwoFailingShards = "C20:multi-shard-comparison-get-with-two-failing-shards-panics"
	requestTimeout     = 3 * time.Second
	collectBound       = 20 * time.Second
)

// ---- assignments ----

type shardInfo struct {
	id       int64
	min, max uint32
	leader   string
}

// equalRanges follows the arithmetic of the coordinator's shard generation.
func equalRanges(n uint32) [][2]uint32 {
	bucket := (math.MaxUint32 / n) + 1
	out := make([][2]uint32, 0, n)
	for i := uint32(0); i < n; i++ {
		lo := i * bucket
		hi := lo + bucket - 1
		if i == n-1 {
			hi = math.MaxUint32
		}
		out = append(out, [2]uint32{lo, hi})
	}
	return out
}

func cutRanges(t *rapid.T, n int) [][2]uint32 {
	cuts := map[uint32]bool{}
	for len(cuts) < n-1 {
		cuts[rapid.Uint32Range(1, math.MaxUint32).Draw(t, "cut")] = true
	}
	var cs []uint32
	for c := range cuts {
		cs = append(cs, c)
	}
	sort.Slice(cs, func(i, j int) bool { return cs[i] < cs[j] })
	var out [][2]uint32
	lo := uint32(0)
	for _, c := range cs {
		out = append(out, [2]uint32{lo, c - 1})
		lo = c
	}
	return append(out, [2]uint32{lo, math.MaxUint32})
}

func makeShards(t *rapid.T, ranges [][2]uint32, baseId int64, leaders []string) []shardInfo {
	var out []shardInfo
	for i, r := range ranges {
		out = append(out, shardInfo{id: baseId + int64(i), min: r[0], max: r[1],
			leader: leaders[rapid.IntRange(0, len(leaders)-1).Draw(t, "leader")]})
	}
	return out
}

func toAssignments(shards []shardInfo, order []int) *proto.ShardAssignments {
	ns := &proto.NamespaceShardsAssignment{ShardKeyRouter: proto.ShardKeyRouter_XXHASH3}
	for _, i := range order {
		s := shards[i]
		ns.Assignments = append(ns.Assignments, &proto.ShardAssignment{
			Shard:  s.id,
			Leader: s.leader,
			ShardBoundaries: &proto.ShardAssignment_Int32HashRange{
				Int32HashRange: &proto.Int32HashRange{MinHashInclusive: s.min, MaxHashInclusive: s.max},
			},
		})
	}
	return &proto.ShardAssignments{Namespaces: map[string]*proto.NamespaceShardsAssignment{fakeNamespace: ns}}
}

func identityOrder(n int) []int {
	o := make([]int, n)
	for i := range o {
		o[i] = i
	}
	return o
}

// keyHash is the 32-bit xxh3 hash of the routing key, computed with the hashing library directly.
func keyHash(k string) uint32 { return uint32(xxh3.HashString(k)) }

func route(shards []shardInfo, routingKey string) int64 {
	h := keyHash(routingKey)
	for _, s := range shards {
		if s.min <= h && h <= s.max {
			return s.id
		}
	}
	return -1
}

func allIds(shards []shardInfo) []int64 {
	var out []int64
	for _, s := range shards {
		out = append(out, s.id)
	}
	return out
}

// ---- calls ----

type call struct {
	idx     int
	kind    string // put del delrange get list scan
	key     string
	end     string
	value   []byte
	fp      string
	ev      *int64
	pk      *string
	seq     bool
	secIdx  bool
	invalid bool
	cmp     proto.KeyComparisonType
	include bool
	inclSet bool
	shards  []int64
	id      string
	detail  string
	fails   map[int64]*inject
	pause   time.Duration

	// outcome
	items    int
	closed   bool
	panicked any
	putRes   []oxia.PutResult
	errRes   []error
	getRes   []oxia.GetResult
	listRes  []oxia.ListResult
}

func (c *call) String() string {
	s := fmt.Sprintf("#%d %s %q", c.idx, c.kind, c.key)
	switch c.kind {
	case "put":
		s += fmt.Sprintf(" val=%s ev=%s pk=%s seq=%v idx=%v invalid=%v", c.fp, i64s(c.ev), strs(c.pk), c.seq, c.secIdx, c.invalid)
	case "del":
		s += fmt.Sprintf(" ev=%s pk=%s", i64s(c.ev), strs(c.pk))
	case "delrange", "list", "scan":
		s += fmt.Sprintf("..%q pk=%s", c.end, strs(c.pk))
	case "get":
		s += fmt.Sprintf(" cmp=%v include=%v pk=%s", c.cmp, c.include, strs(c.pk))
	}
	s += fmt.Sprintf(" shards=%v", c.shards)
	if len(c.fails) > 0 {
		var ids []int64
		for id := range c.fails {
			ids = append(ids, id)
		}
		sort.Slice(ids, func(i, j int) bool { return ids[i] < ids[j] })
		for _, id := range ids {
			s += fmt.Sprintf(" FAIL@%d=%s", id, c.fails[id])
		}
	}
	return s
}

func (c *call) isWrite() bool { return c.kind == "put" || c.kind == "del" || c.kind == "delrange" }

type config struct {
	timeout time.Duration // client request timeout
	stall   time.Duration // how long a stalled write batch is held by the server (0 = no stalls in this case)
	stalled map[int64]bool // shards with a stalled write batch
	linger  time.Duration
	maxReq  int
	nLead   int
	chunk   int
	shards  []shardInfo
	stored  map[int64][]string
	lat     map[int64]latency
	weights [7]int // put del delrange getEq getCmp list scan
	nCalls  [2]int
}

var pkPool = []string{"pk0", "pk1", "pk2", "pk3", "pk/4", "p"}
var keyPrefixes = []string{"k", "a/b/", "x-", "/", "ü", "k/"}

func drawPk(t *rapid.T, oneIn int) *string {
	if rapid.IntRange(0, oneIn-1).Draw(t, "hasPk") != 0 {
		return nil
	}
	s := rapid.SampledFrom(pkPool).Draw(t, "pk")
	return &s
}

func targetShards(shards []shardInfo, key string, pk *string, fanOut bool) []int64 {
	if pk != nil {
		return []int64{route(shards, *pk)}
	}
	if fanOut {
		return allIds(shards)
	}
	return []int64{route(shards, key)}
}

func makeValue(idx, size int) []byte {
	v := bytes.Repeat([]byte{byte('a' + idx%26)}, size)
	copy(v, fmt.Sprintf("v%d:", idx))
	return v
}

type genState struct {
	large, oversized int
	seenCmp          map[string]bool
	seenRange        map[string]bool
	retriable        int
	retryCase        bool // whether this case may place a retriable (Unavailable) read failure
}

func drawCall(t *rapid.T, cfg *config, st *genState, idx int, pool []string) *call {
	c := &call{idx: idx, fails: map[int64]*inject{}}
	w := cfg.weights
	total := 0
	for _, x := range w {
		total += x
	}
	r := rapid.IntRange(0, total-1).Draw(t, "kind")
	k := 0
	for ; k < len(w); k++ {
		if r < w[k] {
			break
		}
		r -= w[k]
	}
	prefix := rapid.SampledFrom(keyPrefixes).Draw(t, "prefix")
	poolKey := func(label string) string {
		if len(pool) > 0 && rapid.IntRange(0, 3).Draw(t, label+"FromPool") != 0 {
			return pool[rapid.IntRange(0, len(pool)-1).Draw(t, label+"Idx")]
		}
		return gen.Key().Draw(t, label)
	}
	switch k {
	case 0: // put
		c.kind = "put"
		c.key = fmt.Sprintf("%s%d", prefix, idx)
		size := rapid.IntRange(1, 64).Draw(t, "size")
		switch rapid.IntRange(0, 11).Draw(t, "sizeClass") {
		case 0, 1:
			size = rapid.IntRange(1000, 4000).Draw(t, "sizeMedium")
		case 2:
			if st.large < 4 {
				st.large++
				size = rapid.IntRange(40000, 70000).Draw(t, "sizeLarge")
			}
		case 3:
			if st.oversized < 1 {
				st.oversized++
				size = rapid.IntRange(byteLimit-10, byteLimit+9000).Draw(t, "sizeOver")
			}
		}
		c.value = makeValue(idx, size)
		c.fp = valFP(c.value)
		switch rapid.IntRange(0, 4).Draw(t, "ev") {
		case 0:
			v := int64(rapid.IntRange(0, 100).Draw(t, "evv"))
			c.ev = &v
		case 1:
			v := oxia.VersionIdNotExists
			c.ev = &v
		}
		c.pk = drawPk(t, 4)
		c.seq = rapid.IntRange(0, 7).Draw(t, "seq") == 0
		c.secIdx = rapid.IntRange(0, 5).Draw(t, "secIdx") == 0
		if c.seq && (c.pk == nil || c.ev != nil) {
			c.invalid = true
		}
		c.id = putId(c.key)
		var deltas []uint64
		if c.seq {
			deltas = []uint64{1}
		}
		var idxs []*proto.SecondaryIndex
		if c.secIdx {
			idxs = []*proto.SecondaryIndex{{IndexName: "idx", SecondaryKey: fmt.Sprintf("sk%d", idx)}}
		}
		c.detail = putDetail(c.fp, c.ev, c.pk, deltas, idxs, nil)
		c.shards = targetShards(cfg.shards, c.key, c.pk, false)
	case 1: // delete
		c.kind = "del"
		c.key = fmt.Sprintf("%s%d", prefix, idx)
		if rapid.IntRange(0, 2).Draw(t, "ev") == 0 {
			v := int64(rapid.IntRange(0, 100).Draw(t, "evv"))
			c.ev = &v
		}
		c.pk = drawPk(t, 4)
		c.id = delId(c.key)
		c.detail = delDetail(c.ev)
		c.shards = targetShards(cfg.shards, c.key, c.pk, false)
	case 2: // delete range
		c.kind = "delrange"
		c.key = fmt.Sprintf("dr%d/a", idx)
		c.end = fmt.Sprintf("dr%d/z", idx)
		c.pk = drawPk(t, 2)
		c.id = rangeId(c.key, c.end)
		c.shards = targetShards(cfg.shards, "", c.pk, true)
	case 3, 4: // get
		c.kind = "get"
		c.cmp = proto.KeyComparisonType_EQUAL
		c.include = true
		if rapid.Bool().Draw(t, "inclSet") {
			c.inclSet = true
			c.include = rapid.Bool().Draw(t, "include")
		}
		c.pk = drawPk(t, 4)
		if k == 4 {
			cmp := rapid.SampledFrom([]proto.KeyComparisonType{proto.KeyComparisonType_FLOOR, proto.KeyComparisonType_CEILING,
				proto.KeyComparisonType_LOWER, proto.KeyComparisonType_HIGHER}).Draw(t, "cmp")
			key := poolKey("cmpKey")
			if !st.seenCmp[getId(key, cmp)] {
				st.seenCmp[getId(key, cmp)] = true
				c.cmp, c.key = cmp, key
			}
		}
		if c.cmp == proto.KeyComparisonType_EQUAL {
			c.key = fmt.Sprintf("g%s%d", prefix, idx)
		}
		c.id = getId(c.key, c.cmp)
		c.detail = getDetail(c.include, nil)
		c.shards = targetShards(cfg.shards, c.key, c.pk, c.cmp != proto.KeyComparisonType_EQUAL)
	default: // list, scan
		c.kind = "list"
		if k == 6 {
			c.kind = "scan"
		}
		for try := 0; ; try++ {
			c.key, c.end = "", ""
			if rapid.IntRange(0, 3).Draw(t, "hasStart") != 0 {
				c.key = poolKey("start")
			}
			if rapid.IntRange(0, 3).Draw(t, "hasEnd") != 0 {
				c.end = poolKey("end")
			}
			if try >= 3 {
				c.key = fmt.Sprintf("%s%d", c.key, idx)
			}
			if !st.seenRange[c.kind+c.key+"|"+c.end] {
				break
			}
		}
		st.seenRange[c.kind+c.key+"|"+c.end] = true
		c.pk = drawPk(t, 4)
		if c.kind == "list" {
			c.id = listId(c.key, c.end)
		} else {
			c.id = scanId(c.key, c.end)
		}
		c.detail = "idx=-"
		c.shards = targetShards(cfg.shards, "", c.pk, true)
	}
	if rapid.IntRange(0, 14).Draw(t, "pause") == 0 {
		c.pause = time.Duration(rapid.IntRange(1, 3).Draw(t, "pauseMs")) * time.Millisecond
	}
	return c
}

var permanentCodes = []codes.Code{codes.Internal, codes.InvalidArgument}

func drawInject(t *rapid.T, st *genState, allowRetriable bool, allowClean bool) *inject {
	in := &inject{times: injectForever, mode: rapid.IntRange(0, 1).Draw(t, "failMode")}
	in.code = rapid.SampledFrom(permanentCodes).Draw(t, "code")
	// a retried read costs the client's backoff (100 ms +-50%, doubling): at most one per case
	if allowRetriable && st.retryCase && st.retriable < 1 && rapid.Bool().Draw(t, "retriable") {
		st.retriable++
		in.code = codes.Unavailable
		in.times = []int{1, 1, 1, 2}[rapid.IntRange(0, 3).Draw(t, "times")]
	}
	if allowClean && rapid.IntRange(0, 4).Draw(t, "clean") == 0 {
		in.code, in.mode, in.times = codes.OK, modeCleanClose, injectForever
	}
	return in
}

func pickShards(t *rapid.T, ids []int64, n int) []int64 {
	p := append([]int64(nil), ids...)
	var out []int64
	for i := 0; i < n && len(p) > 0; i++ {
		j := rapid.IntRange(0, len(p)-1).Draw(t, "failShard")
		out = append(out, p[j])
		p = append(p[:j], p[j+1:]...)
	}
	return out
}

// placeFailures draws where errors are placed. Write failures: Unavailable kills the stream too (the
// client never retries a write whose stream died, see report), so any code may be used freely.
func placeFailures(t *rapid.T, cfg *config, st *genState, calls []*call, fanOutBias bool) {
	var writes, gets []*call
	for _, c := range calls {
		switch {
		case c.invalid:
		case c.isWrite():
			writes = append(writes, c)
		case c.kind == "get" && len(c.shards) == 1:
			gets = append(gets, c)
		}
	}
	nW := []int{0, 0, 1, 1, 1, 2}[rapid.IntRange(0, 5).Draw(t, "nWriteFail")]
	for i := 0; i < nW && len(writes) > 0; i++ {
		c := writes[rapid.IntRange(0, len(writes)-1).Draw(t, "failWrite")]
		sh := pickShards(t, c.shards, 1)[0]
		in := drawInject(t, st, false, true)
		if rapid.IntRange(0, 2).Draw(t, "writeUnavailable") == 0 && in.mode != modeCleanClose {
			in.code = codes.Unavailable
		}
		c.fails[sh] = in
	}
	nR := []int{0, 0, 1, 1, 2}[rapid.IntRange(0, 4).Draw(t, "nReadFail")]
	for i := 0; i < nR && len(gets) > 0; i++ {
		c := gets[rapid.IntRange(0, len(gets)-1).Draw(t, "failGet")]
		c.fails[c.shards[0]] = drawInject(t, st, true, false)
	}
	for _, c := range calls {
		fan := c.kind == "list" || c.kind == "scan" || (c.kind == "get" && c.cmp != proto.KeyComparisonType_EQUAL && c.pk == nil)
		if !fan {
			continue
		}
		dist := []int{0, 0, 0, 0, 1, 1, 1, 2, 2, 3}
		if fanOutBias {
			dist = []int{0, 0, 1, 1, 1, 2, 2, 2, 3, 3}
		}
		nf := dist[rapid.IntRange(0, len(dist)-1).Draw(t, "nFailShards")]
		if nf > len(c.shards) {
			nf = len(c.shards)
		}
		for _, sh := range pickShards(t, c.shards, nf) {
			in := drawInject(t, st, c.kind == "get", false)
			if c.kind != "get" && rapid.IntRange(0, 2).Draw(t, "streamUnavailable") == 0 {
				in.code = codes.Unavailable // list / range scan are never retried by the client
			}
			c.fails[sh] = in
		}
	}
	// Listed known finding: a multi-shard comparison get must not see errors on two shards. A get placed in
	// the same read batch as a failing get shares its fate, so with such a get in the case all read
	// failures are confined to one shard (by construction, counted).
	if shards := getFailureShards(calls); hasFanOutGet(calls) && len(shards) >= 2 && evid.Known(kfTwoFailingShards) {
		evid.Excluded("C20", kfTwoFailingShards)
		for _, c := range calls {
			if c.kind != "get" {
				continue
			}
			for sh := range c.fails {
				if sh != shards[0] {
					delete(c.fails, sh)
				}
			}
		}
	}
}

// placeStalls: one or two write calls whose batch the server answers only after the client's request timeout,
// keeping the stream alive. Some of the following calls are issued while the stall lasts (they queue behind it in
// the batcher or on the stream), some after a pause that lets it pass.
func placeStalls(t *rapid.T, cfg *config, calls []*call) {
	var writes []*call
	for _, c := range calls {
		if c.isWrite() && !c.invalid && len(c.shards) == 1 {
			writes = append(writes, c)
		}
	}
	if len(writes) == 0 {
		return
	}
	n := rapid.IntRange(1, 2).Draw(t, "nStalls")
	for i := 0; i < n; i++ {
		c := writes[rapid.IntRange(0, len(writes)-1).Draw(t, "stallWrite")]
		c.fails[c.shards[0]] = &inject{code: codes.OK, mode: modeStall, times: 1}
		if cfg.stalled == nil {
			cfg.stalled = map[int64]bool{}
		}
		cfg.stalled[c.shards[0]] = true
		// the calls right after it: immediately, shortly after the timeout, or after the stall
		for j := c.idx + 1; j < len(calls) && j <= c.idx+3; j++ {
			switch rapid.IntRange(0, 3).Draw(t, "afterStall") {
			case 1:
				calls[j].pause = cfg.timeout + time.Duration(rapid.IntRange(1, 15).Draw(t, "justAfterTimeoutMs"))*time.Millisecond
			case 2:
				calls[j].pause = cfg.stall + 40*time.Millisecond
			}
		}
	}
}

func callErr(c *call) error {
	switch c.kind {
	case "put":
		if len(c.putRes) > 0 {
			return c.putRes[0].Err
		}
	case "del", "delrange":
		if len(c.errRes) > 0 {
			return c.errRes[0]
		}
	case "get":
		if len(c.getRes) > 0 {
			return c.getRes[0].Err
		}
	}
	return nil
}

func isTimeout(err error) bool {
	return err != nil && (errors.Is(err, context.DeadlineExceeded) || strings.Contains(err.Error(), "deadline exceeded") || strings.Contains(err.Error(), "DeadlineExceeded"))
}

func timedOutBehindStall(c *call, cfg *config) bool {
	if !isTimeout(callErr(c)) {
		return false
	}
	for _, s := range c.shards {
		if cfg.stalled[s] {
			return true
		}
	}
	return false
}

func hasFanOutGet(calls []*call) bool {
	for _, c := range calls {
		if c.kind == "get" && len(c.shards) >= 2 {
			return true
		}
	}
	return false
}

// getFailureShards lists the distinct shards on which a get (read batch) failure is placed, in call order.
func getFailureShards(calls []*call) []int64 {
	var out []int64
	for _, c := range calls {
		if c.kind != "get" {
			continue
		}
		for _, sh := range c.shards {
			if c.fails[sh] != nil && !containsId(out, sh) {
				out = append(out, sh)
			}
		}
	}
	return out
}

// ---- running ----

func collect[T any](ctx context.Context, ch <-chan T) (items []T, closed bool) {
	for {
		select {
		case it, ok := <-ch:
			if !ok {
				return items, true
			}
			items = append(items, it)
		case <-ctx.Done():
			return items, false
		}
	}
}

func (c *call) issue(ctx context.Context, cl oxia.AsyncClient, wg *sync.WaitGroup) {
	defer func() {
		if r := recover(); r != nil {
			c.panicked = r
		}
	}()
	switch c.kind {
	case "put":
		var opts []oxia.PutOption
		if c.ev != nil {
			if *c.ev == oxia.VersionIdNotExists {
				opts = append(opts, oxia.ExpectedRecordNotExists())
			} else {
				opts = append(opts, oxia.ExpectedVersionId(*c.ev).(oxia.PutOption))
			}
		}
		if c.pk != nil {
			opts = append(opts, oxia.PartitionKey(*c.pk))
		}
		if c.seq {
			opts = append(opts, oxia.SequenceKeysDeltas(1))
		}
		if c.secIdx {
			opts = append(opts, oxia.SecondaryIndex("idx", fmt.Sprintf("sk%d", c.idx)))
		}
		ch := cl.Put(c.key, c.value, opts...)
		wg.Add(1)
		go func() { defer wg.Done(); c.putRes, c.closed = collect(ctx, ch); c.items = len(c.putRes) }()
	case "del":
		var opts []oxia.DeleteOption
		if c.ev != nil {
			opts = append(opts, oxia.ExpectedVersionId(*c.ev))
		}
		if c.pk != nil {
			opts = append(opts, oxia.PartitionKey(*c.pk))
		}
		ch := cl.Delete(c.key, opts...)
		wg.Add(1)
		go func() { defer wg.Done(); c.errRes, c.closed = collect(ctx, ch); c.items = len(c.errRes) }()
	case "delrange":
		var opts []oxia.DeleteRangeOption
		if c.pk != nil {
			opts = append(opts, oxia.PartitionKey(*c.pk))
		}
		ch := cl.DeleteRange(c.key, c.end, opts...)
		wg.Add(1)
		go func() { defer wg.Done(); c.errRes, c.closed = collect(ctx, ch); c.items = len(c.errRes) }()
	case "get":
		var opts []oxia.GetOption
		switch c.cmp {
		case proto.KeyComparisonType_FLOOR:
			opts = append(opts, oxia.ComparisonFloor())
		case proto.KeyComparisonType_CEILING:
			opts = append(opts, oxia.ComparisonCeiling())
		case proto.KeyComparisonType_LOWER:
			opts = append(opts, oxia.ComparisonLower())
		case proto.KeyComparisonType_HIGHER:
			opts = append(opts, oxia.ComparisonHigher())
		}
		if c.inclSet {
			opts = append(opts, oxia.IncludeValue(c.include))
		}
		if c.pk != nil {
			opts = append(opts, oxia.PartitionKey(*c.pk))
		}
		ch := cl.Get(c.key, opts...)
		wg.Add(1)
		go func() { defer wg.Done(); c.getRes, c.closed = collect(ctx, ch); c.items = len(c.getRes) }()
	case "list":
		var opts []oxia.ListOption
		if c.pk != nil {
			opts = append(opts, oxia.PartitionKey(*c.pk))
		}
		ch := cl.List(ctx, c.key, c.end, opts...)
		wg.Add(1)
		go func() { defer wg.Done(); c.listRes, c.closed = collect(ctx, ch); c.items = len(c.listRes) }()
	case "scan":
		var opts []oxia.RangeScanOption
		if c.pk != nil {
			opts = append(opts, oxia.PartitionKey(*c.pk))
		}
		ch := cl.RangeScan(ctx, c.key, c.end, opts...)
		wg.Add(1)
		go func() { defer wg.Done(); c.getRes, c.closed = collect(ctx, ch); c.items = len(c.getRes) }()
	}
}

// ---- oracle ----

type serverView struct {
	recs     []*rpcRec
	okAt     map[string]bool // at(op, shard): some batch carrying it was answered completely
	failedAt map[string]bool // at(op, shard): some batch carrying it was failed by the script
	seenAt   map[string]int
	killed   map[int64]bool // shard had a scripted write-stream death
}

func viewOf(recs []*rpcRec) *serverView {
	v := &serverView{recs: recs, okAt: map[string]bool{}, failedAt: map[string]bool{}, seenAt: map[string]int{}, killed: map[int64]bool{}}
	for _, r := range recs {
		for _, o := range r.ops {
			k := at(o.id, r.shard)
			v.seenAt[k]++
			if r.ok {
				v.okAt[k] = true
			}
			if r.failed {
				v.failedAt[k] = true
			}
		}
		if r.kind == kindWrite && r.killed {
			v.killed[r.shard] = true
		}
	}
	return v
}

func sameVersion(got oxia.Version, want *proto.Version) bool {
	return got.VersionId == want.VersionId && got.ModificationsCount == want.ModificationsCount &&
		got.CreatedTimestamp == want.CreatedTimestamp && got.ModifiedTimestamp == want.ModifiedTimestamp &&
		!got.Ephemeral && got.SessionId == 0 && got.ClientIdentity == ""
}

func statusErr(s proto.Status) error {
	switch s {
	case proto.Status_OK:
		return nil
	case proto.Status_KEY_NOT_FOUND:
		return oxia.ErrKeyNotFound
	case proto.Status_UNEXPECTED_VERSION_ID:
		return oxia.ErrUnexpectedVersionId
	}
	return oxia.ErrUnknownStatus
}

func fmtGet(g oxia.GetResult) string {
	v := string(g.Value)
	if len(v) > 40 {
		v = v[:40] + "..."
	}
	return fmt.Sprintf("{key=%q value=%q version=%d err=%v}", g.Key, v, g.Version.VersionId, g.Err)
}

func checkRecord(g oxia.GetResult, key string, include bool) string {
	want := recordOf(key, include, true)
	if g.Err != nil || g.Key != key || !bytes.Equal(g.Value, want.Value) || !sameVersion(g.Version, want.Version) {
		return fmt.Sprintf("got %s, the server's record is {key=%q value=%q version=%d}", fmtGet(g), key, want.Value, want.Version.VersionId)
	}
	return ""
}

// unionOf returns the records in range held by the given shards, in key order.
func unionOf(stored map[int64][]string, shards []int64, start, end string) []string {
	var out []string
	for _, s := range shards {
		out = append(out, keysInRange(stored[s], start, end)...)
	}
	sortKeys(out)
	return out
}

// checkCall returns "" or the description of the violation.
func checkCall(c *call, cfg *config, v *serverView) string {
	if c.panicked != nil {
		return fmt.Sprintf("the client call panicked: %v", c.panicked)
	}
	streaming := c.kind == "list" || c.kind == "scan"
	if !streaming && c.items != 1 {
		return fmt.Sprintf("the result channel delivered %d results before closing (exactly one expected)", c.items)
	}
	if c.invalid {
		if err := c.putRes[0].Err; !errors.Is(err, oxia.ErrInvalidOptions) {
			return fmt.Sprintf("a put with an invalid option mix completed with %v (ErrInvalidOptions expected)", err)
		}
		for _, s := range c.shards {
			if v.seenAt[at(c.id, s)] > 0 {
				return "a put refused with ErrInvalidOptions was sent to the server"
			}
		}
		return ""
	}
	if cfg.stall > 0 && isTimeout(callErr(c)) {
		// slow mode: the request timeout is short, the answer of a batch is held beyond it and the machine may be
		// loaded: any single-result call may fail with the timeout (exactly-once completion was checked above);
		// what must hold is that a call that completes successfully carries the result of that very operation
		return ""
	}
	okAll, explained := true, false
	var failedShards []int64
	for _, s := range c.shards {
		k := at(c.id, s)
		if !v.okAt[k] {
			okAll = false
			failedShards = append(failedShards, s)
			if v.failedAt[k] || (c.isWrite() && v.killed[s]) {
				explained = true
			}
		}
	}
	unexplained := func(err error) string {
		return fmt.Sprintf("the operation failed with %q although no failure was placed on a batch carrying it (shards not answered: %v)", err, failedShards)
	}
	switch c.kind {
	case "put":
		r := c.putRes[0]
		if !okAll {
			if r.Err == nil {
				return fmt.Sprintf("the server never answered this put (shards %v), the client reported success %+v", failedShards, r)
			}
			if !explained {
				return unexplained(r.Err)
			}
			return ""
		}
		wantErr := statusErr(putStatus(c.key, c.ev != nil))
		if wantErr != nil {
			if !errors.Is(r.Err, wantErr) {
				return fmt.Sprintf("got %+v, the server answered this put with %v", r, wantErr)
			}
			return ""
		}
		wantKey := c.key
		if c.seq {
			wantKey += seqKeySuffix
		}
		wv := putVersion(c.key, c.fp)
		if r.Err != nil || r.Key != wantKey || !sameVersion(r.Version, wv) {
			return fmt.Sprintf("got {key=%q version=%+v err=%v}, the server answered this put with {key=%q version=%v}", r.Key, r.Version, r.Err, wantKey, wv)
		}
	case "del", "delrange":
		err := c.errRes[0]
		if !okAll {
			if err == nil {
				return fmt.Sprintf("the server never answered this operation on shards %v, the client reported success", failedShards)
			}
			if !explained {
				return unexplained(err)
			}
			return ""
		}
		var want error
		if c.kind == "del" {
			want = statusErr(delStatus(c.key, c.ev != nil))
		} else {
			want = statusErr(rangeStatus(c.key, c.end))
		}
		if !errors.Is(err, want) || (want == nil && err != nil) {
			return fmt.Sprintf("got %v, the server answered this operation with %v", err, want)
		}
	case "get":
		r := c.getRes[0]
		if !okAll {
			if r.Err == nil {
				return fmt.Sprintf("the read failed on shards %v, the client reported success %s", failedShards, fmtGet(r))
			}
			if !explained {
				return unexplained(r.Err)
			}
			return ""
		}
		if c.cmp == proto.KeyComparisonType_EQUAL {
			if want := statusErr(getEqualStatus(c.key)); want != nil {
				if !errors.Is(r.Err, want) {
					return fmt.Sprintf("got %s, the server answered this get with %v", fmtGet(r), want)
				}
				return ""
			}
			return checkRecord(r, c.key, c.include)
		}
		best, found := model.GetIn(unionOf(cfg.stored, c.shards, "", ""), c.key, c.cmp)
		if !found {
			if !errors.Is(r.Err, oxia.ErrKeyNotFound) {
				return fmt.Sprintf("got %s, no shard holds a candidate (ErrKeyNotFound expected)", fmtGet(r))
			}
			return ""
		}
		if m := checkRecord(r, best, c.include); m != "" {
			return "comparison get across shards " + fmt.Sprint(c.shards) + ": " + m
		}
	case "list":
		if !c.closed {
			return ""
		}
		want := map[string]int{}
		for _, k := range unionOf(cfg.stored, c.shards, c.key, c.end) {
			want[k]++
		}
		got := map[string]int{}
		nErr := 0
		for _, it := range c.listRes {
			if it.Err != nil {
				nErr++
				continue
			}
			for _, k := range it.Keys {
				got[k]++
			}
		}
		for k, n := range got {
			if n > want[k] {
				return fmt.Sprintf("list delivered key %q %d times, the shards hold it %d times", k, n, want[k])
			}
		}
		if okAll {
			if nErr > 0 {
				return fmt.Sprintf("list delivered an error although every shard answered: %+v", c.listRes)
			}
			for k, n := range want {
				if got[k] != n {
					return fmt.Sprintf("list lost key %q (delivered %d times, held %d times)", k, got[k], n)
				}
			}
		} else {
			if nErr == 0 {
				return fmt.Sprintf("list over shards %v with failing shards %v completed without an error item: %+v", c.shards, failedShards, c.listRes)
			}
			if !explained {
				return unexplained(errors.New("list error"))
			}
		}
	case "scan":
		if !c.closed {
			return ""
		}
		want := unionOf(cfg.stored, c.shards, c.key, c.end)
		inWant := map[string]bool{}
		for _, k := range want {
			inWant[k] = true
		}
		var keys []string
		for i, it := range c.getRes {
			if it.Err != nil {
				if i != len(c.getRes)-1 {
					return fmt.Sprintf("range scan delivered items after an error item (position %d of %d)", i, len(c.getRes))
				}
				if okAll {
					return fmt.Sprintf("range scan delivered error %v although every shard answered", it.Err)
				}
				if !explained {
					return unexplained(it.Err)
				}
				continue
			}
			if !inWant[it.Key] {
				return fmt.Sprintf("range scan delivered key %q which no shard holds in the range", it.Key)
			}
			if m := checkRecord(it, it.Key, true); m != "" {
				return "range scan record: " + m
			}
			if len(keys) > 0 && model.CompareKeys(keys[len(keys)-1], it.Key) >= 0 {
				return fmt.Sprintf("range scan delivered %q after %q (not in global key order / duplicated)", it.Key, keys[len(keys)-1])
			}
			keys = append(keys, it.Key)
		}
		if okAll {
			if strings.Join(keys, "\x00") != strings.Join(want, "\x00") {
				return fmt.Sprintf("range scan delivered %q, the sorted union of the shards is %q", keys, want)
			}
		} else if len(c.getRes) == 0 || c.getRes[len(c.getRes)-1].Err == nil {
			return fmt.Sprintf("range scan with failing shards %v completed without an error item (delivered %q)", failedShards, keys)
		}
	}
	return ""
}

type c20Stats struct {
	nontrivial bool
	labels     []string
}

func runC20(t *rapid.T, fanOutBias bool) { runC20x(t, fanOutBias, false) }

// runC20x, slow=true: the client's request timeout is short and the server delays the (correct) answer of one or
// two write batches beyond it while the stream stays alive; later batches on the same stream are answered in order.
func runC20x(t *rapid.T, fanOutBias bool, slow bool) {
	cfg := &config{stored: map[int64][]string{}, lat: map[int64]latency{}, timeout: requestTimeout}
	if slow {
		cfg.timeout = 150 * time.Millisecond
		cfg.stall = time.Duration(rapid.IntRange(170, 260).Draw(t, "stallMs")) * time.Millisecond
	}
	cfg.nLead = rapid.IntRange(1, 3).Draw(t, "nLeaders")
	fc, err := newFakeCase(cfg.nLead)
	if err != nil {
		t.Skip("inconclusive: cannot create loopback servers: " + err.Error())
	}
	defer fc.stop()

	nShards := rapid.IntRange(1, 6).Draw(t, "nShards")
	if slow && nShards > 2 {
		nShards = 1 + nShards%2
	}
	var ranges [][2]uint32
	if rapid.Bool().Draw(t, "equalRanges") {
		ranges = equalRanges(uint32(nShards))
	} else {
		ranges = cutRanges(t, nShards)
	}
	base := rapid.SampledFrom([]int64{0, 1, 7, 1000}).Draw(t, "baseId")
	cfg.shards = makeShards(t, ranges, base, fc.leaders)
	if rapid.IntRange(0, 1).Draw(t, "lingerKind") == 1 {
		cfg.linger = time.Duration(rapid.IntRange(1, 5).Draw(t, "lingerMs")) * time.Millisecond
	}
	cfg.maxReq = rapid.IntRange(1, 8).Draw(t, "maxRequestsPerBatch")
	cfg.chunk = rapid.IntRange(1, 4).Draw(t, "chunk")
	if slow {
		cfg.weights = [7]int{60, 15, 5, 12, 8, 0, 0}
		cfg.nCalls = [2]int{4, 24}
	} else if fanOutBias {
		cfg.weights = [7]int{10, 4, 4, 8, 25, 22, 27}
		cfg.nCalls = [2]int{5, 30}
	} else {
		cfg.weights = [7]int{35, 12, 8, 20, 10, 7, 8}
		cfg.nCalls = [2]int{5, 80}
	}
	lat := func(l string) time.Duration {
		return time.Duration([]int{0, 0, 0, 0, 0, 1, 2, 5}[rapid.IntRange(0, 7).Draw(t, l)]) * time.Millisecond
	}
	pool := gen.Pool(t, 0, 20)
	for _, s := range cfg.shards {
		cfg.lat[s.id] = latency{write: lat("latW"), read: lat("latR"), list: lat("latL"), scan: lat("latS")}
	}
	for _, k := range pool {
		s := cfg.shards[rapid.IntRange(0, len(cfg.shards)-1).Draw(t, "holder")].id
		cfg.stored[s] = append(cfg.stored[s], k)
	}
	for s := range cfg.stored {
		sortKeys(cfg.stored[s])
	}

	st := &genState{seenCmp: map[string]bool{}, seenRange: map[string]bool{}}
	st.retryCase = rapid.IntRange(0, 2).Draw(t, "retriableReadFailureInCase") == 2
	n := rapid.IntRange(cfg.nCalls[0], cfg.nCalls[1]).Draw(t, "nCalls")
	var calls []*call
	byId := map[string]*call{}
	for i := 0; i < n; i++ {
		c := drawCall(t, cfg, st, i, pool)
		calls = append(calls, c)
		byId[c.id] = c
	}
	if slow {
		placeStalls(t, cfg, calls)
	} else {
		placeFailures(t, cfg, st, calls, fanOutBias)
	}

	// script the servers
	fc.set(func() {
		fc.assign = toAssignments(cfg.shards, identityOrder(len(cfg.shards)))
		fc.chunk = cfg.chunk
		fc.stall = cfg.stall
		for id, l := range cfg.lat {
			fc.lat[id] = l
		}
		for id, ks := range cfg.stored {
			fc.stored[id] = ks
		}
		for _, c := range calls {
			for sh, in := range c.fails {
				cp := *in
				fc.poison[at(c.id, sh)] = &cp
			}
		}
	})
	var hist []string
	hist = append(hist, fmt.Sprintf("config{linger=%v maxRequestsPerBatch=%d leaders=%d chunk=%d}", cfg.linger, cfg.maxReq, cfg.nLead, cfg.chunk))
	for _, s := range cfg.shards {
		hist = append(hist, fmt.Sprintf("shard %d [%d..%d] leader#%d lat=%v holds=%q", s.id, s.min, s.max, indexOf(fc.leaders, s.leader), cfg.lat[s.id], cfg.stored[s.id]))
	}
	for _, c := range calls {
		hist = append(hist, c.String())
	}
	if hasFanOutGet(calls) && len(getFailureShards(calls)) >= 2 {
		// a panic on a goroutine of the client library cannot be caught: leave a journal line for attribution
		fmt.Fprintf(os.Stderr, "C20-JOURNAL: running a multi-shard comparison get with errors on >=2 shards (%s); history=%v\n", kfTwoFailingShards, hist)
	}

	cl, err := oxia.NewAsyncClient(fc.bootstrap,
		oxia.WithBatchLinger(cfg.linger),
		oxia.WithMaxRequestsPerBatch(cfg.maxReq),
		oxia.WithRequestTimeout(cfg.timeout))
	if err != nil {
		t.Skip("inconclusive: client cannot be created: " + err.Error())
	}
	closed := false
	defer func() {
		if !closed {
			_ = cl.Close()
		}
	}()

	ctx, cancel := context.WithTimeout(context.Background(), collectBound)
	defer cancel()
	var wg sync.WaitGroup
	for _, c := range calls {
		if c.pause > 0 {
			time.Sleep(c.pause)
		}
		c.issue(ctx, cl, &wg)
	}
	wg.Wait()
	timedOut := 0
	for _, c := range calls {
		if !c.closed && c.panicked == nil {
			timedOut++
		}
	}
	if slow {
		// let the server finish every held answer (and the ones queued behind it) before the verdict
		time.Sleep(cfg.stall + 60*time.Millisecond)
	}
	recs, violations := fc.snapshot()
	v := viewOf(recs)
	if timedOut == 0 {
		drainReads(ctx, cl, cfg, calls, fc) // before any verdict: the deferred Close must find nothing pending
	}

	// 1. nothing but what was submitted reaches the servers, on the right shard, with the right content
	for _, r := range recs {
		for _, o := range r.ops {
			c := byId[o.id]
			if c == nil {
				t.Fatalf("C20: the server received operation %s on shard %d that no call submitted; history=%v", o.id, r.shard, hist)
			}
			if !containsId(c.shards, r.shard) {
				t.Fatalf("C20: operation %s was sent to shard %d, its key routes to %v (C18 client-side routing); history=%v", c, r.shard, c.shards, hist)
			}
			if c.detail != o.detail && c.kind != "delrange" {
				t.Fatalf("C20: operation %s arrived at the server as {%s}, submitted {%s}; history=%v", c, o.detail, c.detail, hist)
			}
		}
		// 2. batch limits
		if (r.kind == kindWrite || r.kind == kindRead) && len(r.ops) > cfg.maxReq {
			t.Fatalf("C20: a %s batch with %d operations was sent, the configured limit is %d; batch=%v; history=%v", r.kind, len(r.ops), cfg.maxReq, r.ops, hist)
		}
		if r.kind == kindWrite && r.bytes > byteLimit && len(r.ops) > 1 {
			t.Fatalf("C20: a write batch with %d operations and %d payload bytes was sent, the limit is %d; batch=%v; history=%v", len(r.ops), r.bytes, byteLimit, r.ops, hist)
		}
	}
	if len(violations) > 0 {
		t.Fatalf("C20: malformed requests reached the servers: %v; history=%v", violations, hist)
	}
	// 3. every call completes exactly once with the result of that very operation
	for _, c := range calls {
		if !c.closed && c.panicked == nil {
			continue
		}
		if m := checkCall(c, cfg, v); m != "" {
			t.Fatalf("C20: call %s: %s; server log=%s; history=%v", c, m, fmtLog(recs, c), hist)
		}
	}
	closed = true
	_ = cl.Close()
	if timedOut > 0 {
		evid.Label("C20", "inconclusive_timeout", 1)
		t.Skip(fmt.Sprintf("inconclusive: %d calls did not complete within %v", timedOut, collectBound))
	}

	// evidence
	stats := classify(cfg, calls, v)
	if slow {
		timedOut, okAfter := false, false
		for _, c := range calls {
			if !c.isWrite() || c.invalid {
				continue
			}
			onStalled := false
			for _, sh := range c.shards {
				onStalled = onStalled || cfg.stalled[sh]
			}
			if !onStalled {
				continue
			}
			if timedOutBehindStall(c, cfg) {
				timedOut = true
			} else if timedOut && callErr(c) == nil {
				okAfter = true
			}
		}
		stats.labels = nil
		if timedOut {
			stats.labels = append(stats.labels, "write_timed_out_on_live_stream")
		}
		if okAfter {
			stats.labels = append(stats.labels, "write_answered_after_a_timed_out_one_on_the_same_stream")
		}
		stats.nontrivial = timedOut && okAfter
	}
	evid.Case("C20", stats.nontrivial, strings.Join(hist, "; "), stats.labels...)
}

func indexOf(xs []string, x string) int {
	for i, y := range xs {
		if x == y {
			return i
		}
	}
	return -1
}

func containsId(xs []int64, x int64) bool {
	for _, y := range xs {
		if x == y {
			return true
		}
	}
	return false
}

func fmtLog(recs []*rpcRec, c *call) string {
	var out []string
	for _, r := range recs {
		for _, o := range r.ops {
			if o.id == c.id {
				out = append(out, fmt.Sprintf("{shard=%d %s ops=%d ok=%v failed=%v code=%v}", r.shard, r.kind, len(r.ops), r.ok, r.failed, r.code))
			}
		}
	}
	return fmt.Sprint(out)
}

func classify(cfg *config, calls []*call, v *serverView) c20Stats {
	var s c20Stats
	lab := map[string]bool{}
	type sk struct {
		shard int64
		kind  string
	}
	count, failed := map[sk]int{}, map[sk]bool{}
	for _, r := range v.recs {
		if r.kind != kindWrite && r.kind != kindRead {
			continue
		}
		k := sk{r.shard, r.kind}
		count[k]++
		if r.killed && !r.failed {
			lab["write_stream_killed_after_answer"] = true
		}
		if r.failed {
			failed[k] = true
			lab[r.kind+"_batch_failure"] = true
			if r.code == codes.Unavailable {
				lab[r.kind+"_batch_failure_unavailable"] = true
			}
		}
		if len(r.ops) > 1 {
			lab["multi_op_batch"] = true
		}
		if r.kind == kindWrite && len(r.ops) > 1 && r.bytes > byteLimit/2 {
			lab["multi_op_batch_above_half_byte_limit"] = true
		}
		if r.kind == kindWrite && r.bytes > byteLimit {
			lab["single_oversized_batch"] = true
		}
	}
	for k, n := range count {
		if n >= 2 && failed[k] {
			s.nontrivial = true
			lab["several_batches_one_failed_"+k.kind] = true
		}
	}
	for _, c := range calls {
		fired, retried := 0, false
		for _, sh := range c.shards {
			if v.failedAt[at(c.id, sh)] {
				fired++
				if v.okAt[at(c.id, sh)] {
					retried = true
				}
			}
		}
		if retried {
			lab["retry_succeeded"] = true
		}
		read := c.kind == "list" || c.kind == "scan" || c.kind == "get"
		if read && len(c.shards) >= 2 {
			lab["multi_shard_"+c.kind] = true
			if fired >= 1 {
				s.nontrivial = true
				lab["multi_shard_"+c.kind+"_with_failing_shard"] = true
			}
			if fired >= 2 {
				lab["multi_shard_"+c.kind+"_with_2+_failing_shards"] = true
			}
		}
		if c.isWrite() && !c.invalid {
			for _, sh := range c.shards {
				k := at(c.id, sh)
				if !v.okAt[k] && !v.failedAt[k] && v.killed[sh] {
					lab["collateral_write_failure_after_stream_death"] = true
				}
			}
		}
		if c.invalid {
			lab["locally_refused_put"] = true
		}
	}
	if cfg.linger == 0 {
		lab["linger_0"] = true
	}
	if len(cfg.shards) > 1 {
		lab["multi_shard"] = true
	}
	for l := range lab {
		s.labels = append(s.labels, l)
	}
	sort.Strings(s.labels)
	return s
}

func TestC20_SlowWrites(t *testing.T) {
	rapid.Check(t, func(t *rapid.T) { runC20x(t, false, true) })
}

func TestC20_Mixed(t *testing.T) {
	rapid.Check(t, func(t *rapid.T) { runC20(t, false) })
}

func TestC20_FanOut(t *testing.T) {
	rapid.Check(t, func(t *rapid.T) { runC20(t, true) })
}

// findPartitionKey searches a partition key that routes to the shard ("" when the range is too narrow).
func findPartitionKey(shards []shardInfo, id int64) string {
	for i := 0; i < 3000; i++ {
		pk := fmt.Sprintf("barrier-%d", i)
		if route(shards, pk) == id {
			return pk
		}
	}
	return ""
}

// drainReads makes sure, before the client is closed, that no sub-request of a multi-shard get is still
// pending: closing the client (not part of the property) would fail it, which is a second error for a get
// that already reported one. The per-shard read batcher is serial and runs the callbacks of a batch in
// submission order, so a later get on the same shard completes only after all earlier callbacks.
func drainReads(ctx context.Context, cl oxia.AsyncClient, cfg *config, calls []*call, fc *fakeCase) {
	if !hasFanOutGet(calls) || len(getFailureShards(calls)) == 0 {
		return
	}
	var wg sync.WaitGroup
	var unreachable []int64
	for _, s := range cfg.shards {
		if pk := findPartitionKey(cfg.shards, s.id); pk != "" {
			ch := cl.Get("barrier", oxia.PartitionKey(pk))
			wg.Add(1)
			go func() { defer wg.Done(); collect(ctx, ch) }()
			continue
		}
		unreachable = append(unreachable, s.id)
	}
	if len(unreachable) > 0 {
		// no key reaches these shards: wait until the servers have given the final answer to every sub-request
		deadline := time.Now().Add(3 * time.Second)
		for time.Now().Before(deadline) {
			recs, _ := fc.snapshot()
			final := map[string]bool{}
			for _, r := range recs {
				if r.ok || (r.failed && r.code != codes.Unavailable) {
					for _, o := range r.ops {
						final[at(o.id, r.shard)] = true
					}
				}
			}
			pending := false
			for _, c := range calls {
				for _, sh := range unreachable {
					if c.kind == "get" && containsId(c.shards, sh) && !final[at(c.id, sh)] {
						pending = true
					}
				}
			}
			if !pending {
				break
			}
			time.Sleep(2 * time.Millisecond)
		}
		time.Sleep(20 * time.Millisecond)
	}
	wg.Wait()
}
