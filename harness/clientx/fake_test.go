package clientx

// Fake Oxia servers on loopback listeners. One "bootstrap" address streams the generated shard
// assignments; the "leader" addresses implement WriteStream / Read / List / RangeScan. Every answer is
// a deterministic function of the operation's own data (key, value, options), so that a positional
// slip inside a batch, a result delivered to the wrong caller or a duplicated / lost result is visible
// to the oracle. Failures are placed by the script on individual operations ("the batch that carries
// operation X on shard S fails"), which is independent of how the client happens to group calls.

import (
	"fmt"
	"hash/fnv"
	"net"
	"sort"
	"strconv"
	"sync"
	"time"

	"google.golang.org/grpc"
	"google.golang.org/grpc/codes"
	"google.golang.org/grpc/metadata"
	"google.golang.org/grpc/status"

	"github.com/oxia-db/oxia/proto"

	"verifharness/model"
)

const (
	byteLimit      = 128 * 1024 // the client's (non configurable) write batch byte limit
	metaShardId    = "shard-id"
	metaNamespace  = "namespace"
	fakeNamespace  = "default"
	valuePrefix    = "val-of-"
	seqKeySuffix   = "-00000000000000000007"
	kindWrite      = "write"
	kindRead       = "read"
	kindList       = "list"
	kindScan       = "scan"
	modeBefore     = 0 // fail without answering (write: the stream dies with the request pending)
	modeAfter      = 1 // write: answer, then kill the stream; read/list/scan: part of the answer, then the status
	modeCleanClose = 2 // write only: the handler returns OK (clean end of stream) with the request pending
	modeStall      = 3 // write only: the answer (correct) is delayed by fakeCase.stall; the stream stays alive
	injectForever  = 1 << 30
)

func h63(s string) int64 {
	f := fnv.New64a()
	_, _ = f.Write([]byte(s))
	return int64(f.Sum64() & 0x7fffffffffffffff)
}

func valFP(v []byte) string {
	f := fnv.New64a()
	_, _ = f.Write(v)
	return fmt.Sprintf("%d:%x", len(v), f.Sum64())
}

func i64s(p *int64) string {
	if p == nil {
		return "-"
	}
	return strconv.FormatInt(*p, 10)
}

func strs(p *string) string {
	if p == nil {
		return "-"
	}
	return strconv.Quote(*p)
}

// ---- operation identities and canonical descriptions (what the client must put on the wire) ----

func putId(key string) string    { return "P:" + key }
func delId(key string) string    { return "D:" + key }
func rangeId(a, b string) string { return "R:" + a + "|" + b }
func listId(a, b string) string  { return "L:" + a + "|" + b }
func scanId(a, b string) string  { return "S:" + a + "|" + b }
func getId(key string, c proto.KeyComparisonType) string {
	return fmt.Sprintf("G:%s|%d", key, int32(c))
}
func at(id string, shard int64) string { return id + "@" + strconv.FormatInt(shard, 10) }

func putDetail(fp string, ev *int64, pk *string, deltas []uint64, idx []*proto.SecondaryIndex, session *int64) string {
	s := fmt.Sprintf("val=%s ev=%s pk=%s seq=%v sess=%s idx=", fp, i64s(ev), strs(pk), deltas, i64s(session))
	for _, i := range idx {
		s += i.IndexName + ":" + i.SecondaryKey + ","
	}
	return s
}
func delDetail(ev *int64) string { return "ev=" + i64s(ev) }
func getDetail(include bool, idx *string) string {
	return fmt.Sprintf("include=%v idx=%s", include, strs(idx))
}

// ---- answers ----

func putVersion(key, fp string) *proto.Version {
	h := h63("put|" + key + "|" + fp)
	return &proto.Version{VersionId: h, ModificationsCount: h % 7, CreatedTimestamp: uint64(h % 100000), ModifiedTimestamp: uint64(h%100000) + uint64(h%13)}
}

func putStatus(key string, hasEv bool) proto.Status {
	if hasEv && h63("ps|"+key)%3 == 0 {
		return proto.Status_UNEXPECTED_VERSION_ID
	}
	return proto.Status_OK
}

func answerPut(p *proto.PutRequest) *proto.PutResponse {
	st := putStatus(p.Key, p.ExpectedVersionId != nil)
	if st != proto.Status_OK {
		return &proto.PutResponse{Status: st}
	}
	r := &proto.PutResponse{Status: st, Version: putVersion(p.Key, valFP(p.Value))}
	if len(p.SequenceKeyDelta) > 0 {
		k := p.Key + seqKeySuffix
		r.Key = &k
	}
	return r
}

func delStatus(key string, hasEv bool) proto.Status {
	switch h63("ds|"+key) % 4 {
	case 0:
		return proto.Status_KEY_NOT_FOUND
	case 1:
		if hasEv {
			return proto.Status_UNEXPECTED_VERSION_ID
		}
	}
	return proto.Status_OK
}

func rangeStatus(a, b string) proto.Status {
	if h63("rs|"+a+"|"+b)%6 == 0 {
		return proto.Status_KEY_NOT_FOUND
	}
	return proto.Status_OK
}

func getVersion(key string) *proto.Version {
	h := h63("get|" + key)
	return &proto.Version{VersionId: h, ModificationsCount: h % 5, CreatedTimestamp: uint64(h % 77777), ModifiedTimestamp: uint64(h % 88888)}
}

func getEqualStatus(key string) proto.Status {
	if h63("gs|"+key)%5 == 0 {
		return proto.Status_KEY_NOT_FOUND
	}
	return proto.Status_OK
}

// recordOf is the stored record of a key (any shard): value and version are functions of the key.
func recordOf(key string, include bool, setKey bool) *proto.GetResponse {
	r := &proto.GetResponse{Status: proto.Status_OK, Version: getVersion(key)}
	if include {
		r.Value = []byte(valuePrefix + key)
	}
	if setKey {
		k := key
		r.Key = &k
	}
	return r
}

func inRange(k, start, end string) bool {
	return model.CompareKeys(k, start) >= 0 && (end == "" || model.CompareKeys(k, end) < 0)
}

func keysInRange(sorted []string, start, end string) []string {
	var out []string
	for _, k := range sorted {
		if inRange(k, start, end) {
			out = append(out, k)
		}
	}
	return out
}

// ---- script and log ----

type inject struct {
	code  codes.Code
	mode  int
	times int
}

func (i *inject) String() string {
	t := "always"
	if i.times < injectForever {
		t = fmt.Sprintf("x%d", i.times)
	}
	return fmt.Sprintf("%v/mode%d/%s", i.code, i.mode, t)
}

type opRec struct {
	id     string
	detail string
}

type rpcRec struct {
	shard  int64
	kind   string
	ops    []opRec
	bytes  int
	ok     bool // answered completely and successfully
	failed bool // failed by the script
	killed bool // write: the stream was ended by the script with or right after this batch
	code   codes.Code

	stalled bool // write: the (correct) answer was delayed beyond the client's request timeout
}

type latency struct{ write, read, list, scan time.Duration }

type fakeCase struct {
	mu         sync.Mutex
	assign     *proto.ShardAssignments
	// earlier assignments: an operation that was already pending when a new assignment was pushed is still
	// addressed according to the assignment it was routed with (the real server would refuse it)
	prevAssigns []*proto.ShardAssignments
	subs       []chan *proto.ShardAssignments
	done       chan struct{}
	stored     map[int64][]string // per shard, sorted in key order
	lat        map[int64]latency
	poison     map[string]*inject // at(opId, shard) -> failure
	stall      time.Duration
	chunk      int
	log        []*rpcRec
	violations []string

	servers   []*grpc.Server
	bootstrap string
	leaders   []string
}

type node struct {
	proto.UnimplementedOxiaClientServer
	fc   *fakeCase
	addr string
}

func newFakeCase(nLeaders int) (*fakeCase, error) {
	fc := &fakeCase{
		done:   make(chan struct{}),
		stored: map[int64][]string{},
		lat:    map[int64]latency{},
		poison: map[string]*inject{},
		chunk:  3,
	}
	for i := 0; i < nLeaders+1; i++ {
		lis, err := net.Listen("tcp", "127.0.0.1:0")
		if err != nil {
			fc.stop()
			return nil, err
		}
		srv := grpc.NewServer()
		n := &node{fc: fc, addr: lis.Addr().String()}
		proto.RegisterOxiaClientServer(srv, n)
		fc.servers = append(fc.servers, srv)
		if i == 0 {
			fc.bootstrap = n.addr
		} else {
			fc.leaders = append(fc.leaders, n.addr)
		}
		go func() { _ = srv.Serve(lis) }()
	}
	return fc, nil
}

func (fc *fakeCase) stop() {
	fc.mu.Lock()
	select {
	case <-fc.done:
	default:
		close(fc.done)
	}
	fc.mu.Unlock()
	for _, s := range fc.servers {
		s.Stop()
	}
}

func (fc *fakeCase) push(a *proto.ShardAssignments) {
	fc.mu.Lock()
	defer fc.mu.Unlock()
	if fc.assign != nil {
		fc.prevAssigns = append(fc.prevAssigns, fc.assign)
	}
	fc.assign = a
	for _, s := range fc.subs {
		select {
		case s <- a:
		default:
		}
	}
}

func (fc *fakeCase) violation(f string, a ...any) {
	fc.mu.Lock()
	defer fc.mu.Unlock()
	fc.violations = append(fc.violations, fmt.Sprintf(f, a...))
}

func (fc *fakeCase) record(r *rpcRec) {
	fc.mu.Lock()
	defer fc.mu.Unlock()
	fc.log = append(fc.log, r)
}

func (fc *fakeCase) set(f func()) {
	fc.mu.Lock()
	defer fc.mu.Unlock()
	f()
}

// take returns the failure placed on one of the operations (first in batch order), consuming one firing.
func (fc *fakeCase) take(shard int64, ops []opRec) *inject {
	fc.mu.Lock()
	defer fc.mu.Unlock()
	for _, o := range ops {
		if in := fc.poison[at(o.id, shard)]; in != nil && in.times > 0 {
			in.times--
			return in
		}
	}
	return nil
}

func (fc *fakeCase) sleep(d time.Duration, stop <-chan struct{}) {
	if d <= 0 {
		return
	}
	tm := time.NewTimer(d)
	defer tm.Stop()
	select {
	case <-tm.C:
	case <-fc.done:
	case <-stop:
	}
}

func (fc *fakeCase) snapshot() ([]*rpcRec, []string) {
	fc.mu.Lock()
	defer fc.mu.Unlock()
	out := make([]*rpcRec, len(fc.log))
	for i, r := range fc.log {
		c := *r
		out[i] = &c
	}
	return out, append([]string(nil), fc.violations...)
}

func statusOf(in *inject) error {
	if in.code == codes.OK {
		return nil
	}
	return status.Error(in.code, "scripted failure")
}

// ---- handlers ----

func (n *node) GetShardAssignments(req *proto.ShardAssignmentsRequest, stream proto.OxiaClient_GetShardAssignmentsServer) error {
	fc := n.fc
	if req.Namespace != fakeNamespace {
		fc.violation("shard assignments requested for namespace %q", req.Namespace)
	}
	sub := make(chan *proto.ShardAssignments, 8)
	fc.mu.Lock()
	cur := fc.assign
	fc.subs = append(fc.subs, sub)
	fc.mu.Unlock()
	if cur != nil {
		if err := stream.Send(cur); err != nil {
			return err
		}
	}
	for {
		select {
		case a := <-sub:
			if err := stream.Send(a); err != nil {
				return err
			}
		case <-fc.done:
			return nil
		case <-stream.Context().Done():
			return nil
		}
	}
}

func (n *node) WriteStream(stream proto.OxiaClient_WriteStreamServer) error {
	fc := n.fc
	md, _ := metadata.FromIncomingContext(stream.Context())
	mdShard := int64(-1)
	if v := md.Get(metaShardId); len(v) == 1 {
		if p, err := strconv.ParseInt(v[0], 10, 64); err == nil {
			mdShard = p
		}
	}
	if v := md.Get(metaNamespace); len(v) != 1 || v[0] != fakeNamespace {
		fc.violation("write stream opened with namespace metadata %v", v)
	}
	if mdShard < 0 {
		fc.violation("write stream opened without a usable shard-id metadata: %v", md.Get(metaShardId))
		return status.Error(codes.InvalidArgument, "no shard id")
	}
	if !fc.leads(n.addr, mdShard) {
		fc.violation("write stream for shard %d opened on %s which does not lead it", mdShard, n.addr)
	}
	for {
		req, err := stream.Recv()
		if err != nil {
			return nil
		}
		rec := &rpcRec{shard: mdShard, kind: kindWrite}
		if req.Shard == nil || *req.Shard != mdShard {
			fc.violation("write request carries shard %s on a stream opened for shard %d", i64s(req.Shard), mdShard)
		}
		resp := &proto.WriteResponse{}
		for _, p := range req.Puts {
			rec.ops = append(rec.ops, opRec{putId(p.Key), putDetail(valFP(p.Value), p.ExpectedVersionId, p.PartitionKey, p.SequenceKeyDelta, p.SecondaryIndexes, p.SessionId)})
			rec.bytes += len(p.Key) + len(p.Value)
			resp.Puts = append(resp.Puts, answerPut(p))
		}
		for _, d := range req.Deletes {
			rec.ops = append(rec.ops, opRec{delId(d.Key), delDetail(d.ExpectedVersionId)})
			rec.bytes += len(d.Key)
			resp.Deletes = append(resp.Deletes, &proto.DeleteResponse{Status: delStatus(d.Key, d.ExpectedVersionId != nil)})
		}
		for _, r := range req.DeleteRanges {
			rec.ops = append(rec.ops, opRec{rangeId(r.StartInclusive, r.EndExclusive), ""})
			rec.bytes += len(r.StartInclusive) + len(r.EndExclusive)
			resp.DeleteRanges = append(resp.DeleteRanges, &proto.DeleteRangeResponse{Status: rangeStatus(r.StartInclusive, r.EndExclusive)})
		}
		in := fc.take(mdShard, rec.ops)
		fc.sleep(fc.latOf(mdShard).write, stream.Context().Done())
		if in != nil && in.mode == modeStall {
			rec.stalled = true
			fc.sleep(fc.stallFor(), stream.Context().Done())
			in = nil
		}
		if in != nil && in.mode != modeAfter {
			rec.failed, rec.killed, rec.code = true, true, in.code
			fc.record(rec)
			if in.mode == modeCleanClose {
				return nil
			}
			return statusOf(in)
		}
		rec.ok, rec.killed = true, in != nil
		fc.record(rec)
		if err := stream.Send(resp); err != nil {
			fc.set(func() { rec.ok = false })
			return nil
		}
		if in != nil {
			return statusOf(in)
		}
	}
}

func (fc *fakeCase) stallFor() time.Duration {
	fc.mu.Lock()
	defer fc.mu.Unlock()
	return fc.stall
}

func (fc *fakeCase) latOf(shard int64) latency {
	fc.mu.Lock()
	defer fc.mu.Unlock()
	return fc.lat[shard]
}

func (fc *fakeCase) leads(addr string, shard int64) bool {
	fc.mu.Lock()
	defer fc.mu.Unlock()
	if fc.assign == nil {
		return false
	}
	for _, as := range append([]*proto.ShardAssignments{fc.assign}, fc.prevAssigns...) {
		for _, a := range as.Namespaces[fakeNamespace].Assignments {
			if a.Shard == shard && a.Leader == addr {
				return true
			}
		}
	}
	return false
}

func (fc *fakeCase) storedOf(shard int64) []string {
	fc.mu.Lock()
	defer fc.mu.Unlock()
	return fc.stored[shard]
}

func (fc *fakeCase) chunkSize() int {
	fc.mu.Lock()
	defer fc.mu.Unlock()
	return fc.chunk
}

func (n *node) checkShard(kind string, shard *int64) (int64, error) {
	if shard == nil {
		n.fc.violation("%s request without shard id", kind)
		return 0, status.Error(codes.InvalidArgument, "no shard id")
	}
	if !n.fc.leads(n.addr, *shard) {
		n.fc.violation("%s request for shard %d sent to %s which does not lead it", kind, *shard, n.addr)
	}
	return *shard, nil
}

func (n *node) Read(req *proto.ReadRequest, stream proto.OxiaClient_ReadServer) error {
	fc := n.fc
	shard, err := n.checkShard(kindRead, req.Shard)
	if err != nil {
		return err
	}
	rec := &rpcRec{shard: shard, kind: kindRead}
	stored := fc.storedOf(shard)
	var answers []*proto.GetResponse
	for _, g := range req.Gets {
		rec.ops = append(rec.ops, opRec{getId(g.Key, g.ComparisonType), getDetail(g.IncludeValue, g.SecondaryIndexName)})
		if g.ComparisonType == proto.KeyComparisonType_EQUAL {
			if st := getEqualStatus(g.Key); st != proto.Status_OK {
				answers = append(answers, &proto.GetResponse{Status: st})
			} else {
				answers = append(answers, recordOf(g.Key, g.IncludeValue, false))
			}
			continue
		}
		if k, ok := model.GetIn(stored, g.Key, g.ComparisonType); ok {
			answers = append(answers, recordOf(k, g.IncludeValue, true))
		} else {
			answers = append(answers, &proto.GetResponse{Status: proto.Status_KEY_NOT_FOUND})
		}
	}
	in := fc.take(shard, rec.ops)
	fc.sleep(fc.latOf(shard).read, stream.Context().Done())
	if in != nil {
		rec.failed, rec.code = true, in.code
		fc.record(rec)
		if in.mode == modeAfter && len(answers) > 1 {
			_ = stream.Send(&proto.ReadResponse{Gets: answers[:len(answers)/2]})
		}
		return statusOf(in)
	}
	rec.ok = true
	fc.record(rec)
	chunk := fc.chunkSize()
	for len(answers) > 0 {
		c := chunk
		if c > len(answers) {
			c = len(answers)
		}
		if err := stream.Send(&proto.ReadResponse{Gets: answers[:c]}); err != nil {
			fc.set(func() { rec.ok = false })
			return nil
		}
		answers = answers[c:]
	}
	return nil
}

func (n *node) List(req *proto.ListRequest, stream proto.OxiaClient_ListServer) error {
	fc := n.fc
	shard, err := n.checkShard(kindList, req.Shard)
	if err != nil {
		return err
	}
	rec := &rpcRec{shard: shard, kind: kindList, ops: []opRec{{listId(req.StartInclusive, req.EndExclusive), "idx=" + strs(req.SecondaryIndexName)}}}
	keys := keysInRange(fc.storedOf(shard), req.StartInclusive, req.EndExclusive)
	in := fc.take(shard, rec.ops)
	fc.sleep(fc.latOf(shard).list, stream.Context().Done())
	chunk := fc.chunkSize()
	if in != nil {
		rec.failed, rec.code = true, in.code
		fc.record(rec)
		if in.mode == modeAfter && len(keys) > 0 {
			c := chunk
			if c > len(keys) {
				c = len(keys)
			}
			_ = stream.Send(&proto.ListResponse{Keys: keys[:c]})
		}
		return statusOf(in)
	}
	rec.ok = true
	fc.record(rec)
	for len(keys) > 0 {
		c := chunk
		if c > len(keys) {
			c = len(keys)
		}
		if err := stream.Send(&proto.ListResponse{Keys: keys[:c]}); err != nil {
			fc.set(func() { rec.ok = false })
			return nil
		}
		keys = keys[c:]
	}
	return nil
}

func (n *node) RangeScan(req *proto.RangeScanRequest, stream proto.OxiaClient_RangeScanServer) error {
	fc := n.fc
	shard, err := n.checkShard(kindScan, req.Shard)
	if err != nil {
		return err
	}
	rec := &rpcRec{shard: shard, kind: kindScan, ops: []opRec{{scanId(req.StartInclusive, req.EndExclusive), "idx=" + strs(req.SecondaryIndexName)}}}
	keys := keysInRange(fc.storedOf(shard), req.StartInclusive, req.EndExclusive)
	in := fc.take(shard, rec.ops)
	fc.sleep(fc.latOf(shard).scan, stream.Context().Done())
	chunk := fc.chunkSize()
	send := func(ks []string) error {
		r := &proto.RangeScanResponse{}
		for _, k := range ks {
			r.Records = append(r.Records, recordOf(k, true, true))
		}
		return stream.Send(r)
	}
	if in != nil {
		rec.failed, rec.code = true, in.code
		fc.record(rec)
		if in.mode == modeAfter && len(keys) > 0 {
			c := chunk
			if c > len(keys) {
				c = len(keys)
			}
			_ = send(keys[:c])
		}
		return statusOf(in)
	}
	rec.ok = true
	fc.record(rec)
	for len(keys) > 0 {
		c := chunk
		if c > len(keys) {
			c = len(keys)
		}
		if err := send(keys[:c]); err != nil {
			fc.set(func() { rec.ok = false })
			return nil
		}
		keys = keys[c:]
	}
	return nil
}

func sortKeys(keys []string) {
	sort.Slice(keys, func(i, j int) bool { return model.CompareKeys(keys[i], keys[j]) < 0 })
}
