package clientx

// Scripted re-confirmation of the listed known findings. Both defects panic on a goroutine owned by the
// client library, which cannot be recovered and takes the process down; the scenario therefore runs in a
// child process (this test binary re-executed) and the parent looks at its exit status and output.

import (
	"context"
	"fmt"
	"os"
	"os/exec"
	"strings"
	"sync"
	"testing"
	"time"

	"google.golang.org/grpc/codes"

	"github.com/oxia-db/oxia/oxia"
	"github.com/oxia-db/oxia/proto"

	"verifharness/evid"
)

const kfChildEnv = "VERIF_KF_CHILD"
const kfSurvived = "KFCHILD-SURVIVED"

func runChild(t *testing.T, testName string) (string, error) {
	ctx, cancel := context.WithTimeout(context.Background(), 90*time.Second)
	defer cancel()
	cmd := exec.CommandContext(ctx, os.Args[0], "-test.run", "^"+testName+"$", "-test.timeout", "60s", "-test.v")
	for _, e := range os.Environ() {
		if strings.HasPrefix(e, "VERIF_EVID_OUT=") || strings.HasPrefix(e, kfChildEnv+"=") {
			continue
		}
		cmd.Env = append(cmd.Env, e)
	}
	cmd.Env = append(cmd.Env, kfChildEnv+"=1")
	out, err := cmd.CombinedOutput()
	return string(out), err
}

func reconfirm(t *testing.T, prop, sig, child string, marks []string, what string) {
	if !evid.Known(sig) {
		return
	}
	out, err := runChild(t, child)
	died := err != nil
	for _, m := range marks {
		died = died && strings.Contains(out, m)
	}
	switch {
	case died:
		evid.KnownFinding(prop, sig+": "+what)
	case err == nil && strings.Contains(out, kfSurvived):
		t.Logf("%s no longer reproduces: the child process survived the scripted scenario", sig)
	default:
		t.Logf("%s: scripted scenario inconclusive (err=%v); child output tail: %s", sig, err, tail(out, 1500))
	}
}

func tail(s string, n int) string {
	if len(s) > n {
		return s[len(s)-n:]
	}
	return s
}

func TestKF_C20(t *testing.T) {
	reconfirm(t, "C20", kfTwoFailingShards, "TestKFChild_C20", []string{"panic: send on closed channel", "doMultiShardGet"},
		"a floor get without partition key over 2 shards whose reads both fail (codes.Internal) delivers the error once, then the second shard's failure makes the client's read batcher goroutine send on the already closed result channel (doMultiShardGet) and the process dies with 'panic: send on closed channel'")
}

func TestKF_C18(t *testing.T) {
	reconfirm(t, "C18", kfPendingOnRemovedShard, "TestKFChild_C18", []string{"panic: shard not found", "shardManagerImpl).Leader"},
		"a put waiting in the client's batcher (linger 30 ms) while a new assignment re-creates the only shard under another id makes the batcher goroutine panic with 'shard not found' (shardManagerImpl.Leader) and the process dies")
}

func TestKFChild_C20(t *testing.T) {
	if os.Getenv(kfChildEnv) == "" {
		t.Skip("child-process scenario of TestKF_C20")
	}
	fc, err := newFakeCase(1)
	if err != nil {
		t.Skip(err.Error())
	}
	defer fc.stop()
	r := equalRanges(2)
	shards := []shardInfo{{id: 0, min: r[0][0], max: r[0][1], leader: fc.leaders[0]}, {id: 1, min: r[1][0], max: r[1][1], leader: fc.leaders[0]}}
	fc.set(func() {
		fc.assign = toAssignments(shards, identityOrder(2))
		fc.stored[0] = []string{"a"}
		fc.stored[1] = []string{"b"}
		id := getId("m", proto.KeyComparisonType_FLOOR)
		fc.poison[at(id, 0)] = &inject{code: codes.Internal, times: injectForever}
		fc.poison[at(id, 1)] = &inject{code: codes.Internal, times: injectForever}
	})
	cl, err := oxia.NewAsyncClient(fc.bootstrap, oxia.WithBatchLinger(0), oxia.WithRequestTimeout(requestTimeout))
	if err != nil {
		t.Skip(err.Error())
	}
	ctx, cancel := context.WithTimeout(context.Background(), 20*time.Second)
	defer cancel()
	res, closed := collect(ctx, cl.Get("m", oxia.ComparisonFloor()))
	fmt.Printf("KFCHILD: floor get delivered %d results (closed=%v): %v\n", len(res), closed, res)
	// barrier: a later get on each shard completes only after the callbacks of the earlier batch ran
	var wg sync.WaitGroup
	for _, s := range shards {
		ch := cl.Get("barrier", oxia.PartitionKey(findPartitionKey(shards, s.id)))
		wg.Add(1)
		go func() { defer wg.Done(); collect(ctx, ch) }()
	}
	wg.Wait()
	time.Sleep(200 * time.Millisecond)
	_ = cl.Close()
	fmt.Println(kfSurvived)
}

func TestKFChild_C18(t *testing.T) {
	if os.Getenv(kfChildEnv) == "" {
		t.Skip("child-process scenario of TestKF_C18")
	}
	fc, err := newFakeCase(1)
	if err != nil {
		t.Skip(err.Error())
	}
	defer fc.stop()
	r := equalRanges(1)
	s1 := []shardInfo{{id: 0, min: r[0][0], max: r[0][1], leader: fc.leaders[0]}}
	s2 := []shardInfo{{id: 10, min: r[0][0], max: r[0][1], leader: fc.leaders[0]}}
	fc.set(func() { fc.assign = toAssignments(s1, identityOrder(1)) })
	cl, err := oxia.NewAsyncClient(fc.bootstrap, oxia.WithBatchLinger(30*time.Millisecond), oxia.WithRequestTimeout(requestTimeout))
	if err != nil {
		t.Skip(err.Error())
	}
	ctx, cancel := context.WithTimeout(context.Background(), 20*time.Second)
	defer cancel()
	ch := cl.Put("a", []byte("v"))
	fc.push(toAssignments(s2, identityOrder(1)))
	res, closed := collect(ctx, ch)
	fmt.Printf("KFCHILD: put delivered %d results (closed=%v): %v\n", len(res), closed, res)
	time.Sleep(200 * time.Millisecond)
	_ = cl.Close()
	fmt.Println(kfSurvived)
}
