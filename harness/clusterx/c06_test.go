//go:build verif

package clusterx

import (
	"context"
	"fmt"
	"os"
	"path/filepath"
	"strings"
	"testing"
	"time"

	"pgregory.net/rapid"

	time2 "github.com/oxia-db/oxia/common/time"
	"github.com/oxia-db/oxia/proto"
	"github.com/oxia-db/oxia/server"
	"github.com/oxia-db/oxia/server/kv"

	"verifharness/evid"
	"verifharness/gen"
	"verifharness/model"
	"verifharness/nodekit"
)

var c06Tag int

// runC06: the same committed log applied through different routes -- live on the leader, replayed by a follower
// that streams it, by a follower that restarts in the middle, by a late joiner that installs a snapshot (drawn
// chunk size) and replays the rest, and by a plain in-order fold into an empty database -- must give identical
// databases (every stored record; notification batches compared decoded).
func runC06(t *rapid.T) {
	takePanics()
	dir, err := os.MkdirTemp(tmpRoot, "c06-")
	if err != nil {
		t.Fatalf("mkdtemp: %v", err)
	}
	defer evid.RetireDir(dir)
	oldChunk := kv.MaxSnapshotChunkSize
	kv.MaxSnapshotChunkSize = rapid.SampledFrom([]int64{1, 7, 100, 4096, 1 << 20}).Draw(t, "snapshotChunk")
	defer func() { kv.MaxSnapshotChunkSize = oldChunk }()
	c, err := newCluster(dir, 3, 3, rapid.SampledFrom([]int32{4096, 64 * 1024}).Draw(t, "segSize"))
	if err != nil {
		t.Fatalf("cluster: %v", err)
	}
	defer c.close()
	leader, ok := c.waitLeader(10 * time.Second)
	if !ok {
		t.Skip("inconclusive: no leader")
	}
	var followers []string
	for _, n := range c.order {
		if n != leader {
			followers = append(followers, n)
		}
	}
	var hist []string
	logf := func(f string, a ...any) { hist = append(hist, fmt.Sprintf(f, a...)) }
	logf("leader=%s chunk=%d", leader, kv.MaxSnapshotChunkSize)
	lateJoiner := ""
	if rapid.IntRange(0, 2).Draw(t, "late") > 0 {
		lateJoiner = followers[1]
		c.nodes[lateJoiner].stop()
		logf("stop(%s) before any write", lateJoiner)
	}
	m := model.New()
	pool := gen.Pool(t, 3, 8)
	var sessions []int64
	rich := false
	lc := func() server.LeaderController {
		l, err := c.nodes[leader].director.GetLeader(shardID)
		if err != nil {
			return nil
		}
		return l
	}
	write := func(req *proto.WriteRequest) {
		l := lc()
		if l == nil {
			t.Skip("inconclusive: leader changed")
		}
		ch := make(chan error, 1)
		var resp *proto.WriteResponse
		go func() {
			r, err := l.WriteBlock(context.Background(), req.CloneVT())
			resp = r
			ch <- err
		}()
		select {
		case err := <-ch:
			if err != nil {
				t.Skipf("inconclusive: write failed: %v", err)
			}
		case <-time.After(5 * time.Second):
			t.Skip("inconclusive: write not answered")
		}
		ts := uint64(0)
		for _, p := range resp.Puts {
			if p.Status == proto.Status_OK && p.Version != nil {
				ts = p.Version.ModifiedTimestamp
			}
		}
		if _, err := m.Apply(req, resp, ts); err != nil {
			// semantic checks belong to C12; here only the state evolution matters
			_ = err
		}
		for _, p := range req.Puts {
			if p.SessionId != nil || len(p.SequenceKeyDelta) > 0 || len(p.SecondaryIndexes) > 0 {
				rich = true
			}
		}
		if len(req.DeleteRanges) > 0 {
			rich = true
		}
	}
	restarted := false
	nSteps := rapid.IntRange(4, 25).Draw(t, "nSteps")
	for i := 0; i < nSteps; i++ {
		switch rapid.SampledFrom([]string{"write", "write", "write", "write", "session", "closeSession", "restartFollower", "join"}).Draw(t, "step") {
		case "write":
			req := gen.WriteRequest(t, m, gen.ReqOpts{Pool: pool, Sessions: sessions, IndexNames: []string{"idx", "idx0"}, SeqPrefix: []string{"sq"},
				Tag: func() string { c06Tag++; return fmt.Sprintf("v%d", c06Tag) }})
			for _, p := range req.Puts {
				if len(p.SequenceKeyDelta) > 0 {
					p.SequenceKeyDelta = []uint64{p.SequenceKeyDelta[0], 1} // always well-formed (two deltas)
				}
			}
			logf("%s", gen.FormatRequest(req))
			write(req)
		case "session":
			if l := lc(); l != nil && len(sessions) < 3 {
				r, err := l.CreateSession(&proto.CreateSessionRequest{Shard: shardID, SessionTimeoutMs: 60000, ClientIdentity: "c"})
				if err == nil {
					sessions = append(sessions, r.SessionId)
					m.Sessions[r.SessionId] = true
					logf("createSession->%d", r.SessionId)
					rich = true
				}
			}
		case "closeSession":
			if l := lc(); l != nil && len(sessions) > 0 {
				id := sessions[rapid.IntRange(0, len(sessions)-1).Draw(t, "sid")]
				if m.Sessions[id] {
					if _, err := l.CloseSession(&proto.CloseSessionRequest{Shard: shardID, SessionId: id}); err == nil {
						for k, r := range m.Recs {
							if r.Session != nil && *r.Session == id {
								delete(m.Recs, k)
							}
						}
						delete(m.Sessions, id)
						logf("closeSession(%d)", id)
					}
				}
			}
		case "restartFollower":
			f := followers[0]
			if c.nodes[f].isUp() {
				logf("restart(%s)", f)
				c.nodes[f].stop()
				if err := c.nodes[f].start(); err != nil {
					t.Fatalf("C06: follower cannot restart: %v; history=%v", err, hist)
				}
				restarted = true
			}
		case "join":
			if lateJoiner != "" && !c.nodes[lateJoiner].isUp() {
				logf("start(%s)", lateJoiner)
				if err := c.nodes[lateJoiner].start(); err != nil {
					t.Fatalf("C06: late joiner cannot start: %v", err)
				}
			}
		}
		if ps := takePanics(); len(ps) > 0 {
			t.Skip("inconclusive: " + ps[0])
		}
	}
	if lateJoiner != "" && !c.nodes[lateJoiner].isUp() {
		logf("start(%s)", lateJoiner)
		if err := c.nodes[lateJoiner].start(); err != nil {
			t.Fatalf("C06: late joiner cannot start: %v", err)
		}
	}
	// the leader must still be the same one (otherwise the routes are not comparable in this simple setup)
	if l, ok := c.waitLeader(10 * time.Second); !ok || l != leader {
		t.Skip("inconclusive: leadership moved")
	}
	// a final write pushes the commit offset to the followers; then wait until every replica has applied everything
	write(&proto.WriteRequest{Puts: []*proto.PutRequest{{Key: "final", Value: []byte("final")}}})
	write(&proto.WriteRequest{Puts: []*proto.PutRequest{{Key: "final", Value: []byte("final2")}}})
	deadline := time.Now().Add(10 * time.Second)
	var ls *proto.GetStatusResponse
	caught := false
	for time.Now().Before(deadline) && !caught {
		var err error
		ls, err = c.nodes[leader].status()
		if err != nil {
			break
		}
		caught = true
		for _, f := range followers {
			st, err := c.nodes[f].status()
			if err != nil || st.HeadOffset != ls.HeadOffset || st.CommitOffset < ls.HeadOffset-1 {
				caught = false
			}
		}
		if !caught {
			time.Sleep(10 * time.Millisecond)
		}
	}
	if !caught {
		evid.Case("C06", false, strings.Join(hist, "; "), "inconclusive_followers_not_caught_up")
		t.Skip("inconclusive: followers did not catch up within the bound")
	}
	// one more write so that the last-but-one entry is committed everywhere; compare at equal commit offsets
	write(&proto.WriteRequest{Puts: []*proto.PutRequest{{Key: "final", Value: []byte("final3")}}})
	time.Sleep(30 * time.Millisecond)
	if ps := takePanics(); len(ps) > 0 {
		t.Skip("inconclusive: " + ps[0])
	}
	snapshotInstalled := false
	for _, e := range c.hist.snapshot() {
		if e.Kind == "snapshot.ack" {
			snapshotInstalled = true
		}
	}
	// reference: in-order fold of the leader's log up to offset X into an empty database
	llog, okLog := c.nodes[leader].walEntries()
	if !okLog || len(llog) == 0 {
		t.Skip("inconclusive: leader log not readable")
	}
	foldN := 0
	fold := func(upTo int64) []string {
		foldN++
		refDir := filepath.Join(dir, fmt.Sprintf("ref-%d-%d", upTo, foldN))
		f, err := kv.NewPebbleKVFactory(&kv.FactoryOptions{DataDir: refDir, CacheSizeMB: 1})
		if err != nil {
			t.Fatalf("harness: %v", err)
		}
		kf := &nodekit.KVFactory{Factory: f}
		db, err := kv.NewDB(nsName, shardID, kf, time.Hour, time2.SystemClock)
		if err != nil {
			t.Fatalf("harness: %v", err)
		}
		defer db.Close()
		for _, e := range llog {
			if e.Offset > upTo {
				break
			}
			lev := &proto.LogEntryValue{}
			if err := lev.UnmarshalVT(e.Value); err != nil {
				continue
			}
			for _, w := range lev.GetRequests().Writes {
				if _, err := db.ProcessWrite(w, e.Offset, e.Timestamp, server.WrapperUpdateOperationCallback); err != nil {
					t.Skipf("inconclusive: a logged request cannot be applied (C13): %v", err)
				}
			}
		}
		d, err := nodekit.Dump(kf.Last())
		if err != nil {
			t.Fatalf("harness: %v", err)
		}
		return comparableDump(d)
	}
	routes := 1
	for _, name := range c.order {
		n := c.nodes[name]
		d, err := nodekit.Dump(n.kvF.Last())
		if err != nil {
			continue
		}
		co := dbCommitOffset(n.kvF.Last())
		// the dump and the commit offset must belong together: re-read
		if co2 := dbCommitOffset(n.kvF.Last()); co2 != co || co < 0 {
			continue
		}
		got := comparableDump(d)
		var dumpCo int64 = -1
		for _, r := range d {
			if r.Key == "__oxia/commit-offset" {
				se := &proto.StorageEntry{}
				if se.UnmarshalVT(r.Value) == nil {
					fmt.Sscanf(string(se.Value), "%d", &dumpCo)
				}
			}
		}
		if dumpCo < 0 || dumpCo < llog[0].Offset {
			continue
		}
		want := fold(dumpCo)
		routes++
		if diff := diffStrings(got, want); diff != "" {
			role := "follower"
			if name == leader {
				role = "leader"
			} else if name == lateJoiner {
				role = "late joiner (snapshot installed=" + fmt.Sprint(snapshotInstalled) + ")"
			}
			dbg := ""
			for _, nn := range c.order {
				if dd, err := nodekit.Dump(c.nodes[nn].kvF.Last()); err == nil {
					for _, r := range dd {
						if r.Key == "__oxia/last-version-id" || r.Key == "__oxia/commit-offset" {
							se := &proto.StorageEntry{}
							_ = se.UnmarshalVT(r.Value)
							dbg += fmt.Sprintf(" %s:%s=%s", nn, strings.TrimPrefix(r.Key, "__oxia/"), se.Value)
						}
					}
				}
			}
			var snapEvents []string
			for _, e := range c.hist.snapshot() {
				if strings.HasPrefix(e.Kind, "snapshot") || e.Kind == "stream.open" || strings.HasPrefix(e.Kind, "newterm.answered") || strings.HasPrefix(e.Kind, "becomeleader") || strings.HasPrefix(e.Kind, "addfollower") || strings.HasPrefix(e.Kind, "truncate") {
					snapEvents = append(snapEvents, e.String())
				}
			}
			t.Logf("DEBUG %s\n%s", dbg, strings.Join(snapEvents, "\n"))
			t.Fatalf("C06: the database of %s (%s) at commit offset %d differs from the in-order application of the committed log 0..%d to an empty database: %s; history=%v",
				name, role, dumpCo, dumpCo, diff, hist)
		}
	}
	var labels []string
	for n, on := range map[string]bool{"snapshot_installed": snapshotInstalled, "follower_restarted": restarted, "late_joiner": lateJoiner != "", "rich_ops": rich} {
		if on {
			labels = append(labels, n)
		}
	}
	evid.Case("C06", routes >= 3 && rich, strings.Join(hist, "; "), labels...)
}

func TestC06_Routes(t *testing.T) {
	rapid.Check(t, runC06)
}
