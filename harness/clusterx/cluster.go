//go:build verif

package clusterx

import (
	"context"
	"fmt"
	"io"
	"os"
	"path/filepath"
	"sort"
	"strings"
	"sync"
	"time"

	"github.com/emirpasic/gods/v2/sets/linkedhashset"
	"google.golang.org/grpc/status"

	"github.com/oxia-db/oxia/common/constant"
	"github.com/oxia-db/oxia/common/process"
	"github.com/oxia-db/oxia/coordinator/controllers"
	"github.com/oxia-db/oxia/coordinator/metadata"
	"github.com/oxia-db/oxia/coordinator/model"
	"github.com/oxia-db/oxia/coordinator/resources"
	"github.com/oxia-db/oxia/proto"
	"github.com/oxia-db/oxia/server"
	"github.com/oxia-db/oxia/server/kv"
	"github.com/oxia-db/oxia/server/wal"

	"verifharness/nodekit"
)

const (
	nsName  = "ns"
	shardID = int64(0)
)

func sortedKeys[V any](m map[string]V) []string {
	out := make([]string, 0, len(m))
	for k := range m {
		out = append(out, k)
	}
	sort.Strings(out)
	return out
}

// ---- storage node ------------------------------------------------------------------------------------

type Node struct {
	c       *Cluster
	name    string
	dir     string
	segSize int32

	mu       sync.Mutex
	up       bool
	inc      int
	deleted  bool
	walF     *nodekit.WalFactory
	kvF      *nodekit.KVFactory
	director server.ShardsDirector
	irpc     server.VerifInternalRPC

	// C04: the last answered NewTerm, valid until replication traffic / leadership of a term >= it arrives
	fencedTerm  int64
	fencedHead  *proto.EntryId
	fencedValid bool
	fencedInc   int
	// C05: highest term this node answered NewTerm for (must never go backwards, also across restarts)
	maxTermAnswered int64
	// highest term of any append, truncation, snapshot or BecomeLeader handed to this incarnation of the node
	maxTrafficTerm int64
	deletions      int // how many times the coordinator had this node delete its replica
}

func (n *Node) server() model.Server {
	name := n.name
	return model.Server{Name: &name, Public: n.name + ":pub", Internal: n.name}
}

func (n *Node) isUp() bool {
	n.mu.Lock()
	defer n.mu.Unlock()
	return n.up
}

func (n *Node) incarnation() int {
	n.mu.Lock()
	defer n.mu.Unlock()
	return n.inc
}

func (n *Node) rpc() server.VerifInternalRPC {
	n.mu.Lock()
	defer n.mu.Unlock()
	return n.irpc
}

func (n *Node) start() error {
	n.mu.Lock()
	defer n.mu.Unlock()
	n.walF = &nodekit.WalFactory{Factory: wal.NewWalFactory(&wal.FactoryOptions{BaseWalDir: filepath.Join(n.dir, "wal"), Retention: time.Hour,
		SegmentSize: n.segSize, SyncData: true})}
	f, err := kv.NewPebbleKVFactory(&kv.FactoryOptions{DataDir: filepath.Join(n.dir, "db"), CacheSizeMB: 1})
	if err != nil {
		return err
	}
	n.kvF = &nodekit.KVFactory{Factory: f}
	n.director = server.NewShardsDirector(server.Config{NotificationsRetentionTime: time.Hour}, n.walF, n.kvF, &nodeRPC{w: n.c.wire, from: n.name})
	n.irpc = server.NewVerifInternalRPC(n.director, nil)
	n.up = true
	n.inc++
	n.maxTrafficTerm = -1
	n.deleted = false
	return nil
}

// stop closes the node gracefully (its controllers flush and close their WAL and DB).
func (n *Node) stop() {
	n.mu.Lock()
	if !n.up {
		n.mu.Unlock()
		return
	}
	n.up = false
	d, kvF := n.director, n.kvF
	n.fencedValid = false
	n.mu.Unlock()
	n.c.wire.breakNodeStreams(n.name)
	kvF.WaitIteratorsClosed()
	// bounded: a controller whose goroutine panicked may hold its lock forever
	done := make(chan struct{})
	go func() {
		defer func() { _ = recover() }()
		_ = d.Close()
		close(done)
	}()
	select {
	case <-done:
	case <-time.After(3 * time.Second):
		notePanic("harness: closing node " + n.name + " did not finish within the bound")
	}
}

func (n *Node) noteFenced(term int64, head *proto.EntryId) {
	n.mu.Lock()
	defer n.mu.Unlock()
	// "its log does not grow until it receives entries ... from the leader of a term >= T": when traffic of a term
	// >= T had already been handed to the node before it answered (only possible for a duplicate NewTerm(T) that
	// arrives while a leader of term >= T exists), whether the node takes it before or after the NewTerm is not
	// visible from outside and both are admissible - that answer arms nothing (thorough tier, rapid seed 4627022)
	n.fencedTerm, n.fencedHead, n.fencedValid, n.fencedInc = term, head, term > n.maxTrafficTerm, n.inc
	if term > n.maxTermAnswered {
		n.maxTermAnswered = term
	}
}

func (n *Node) noteReplicationFrom(term int64) {
	n.mu.Lock()
	defer n.mu.Unlock()
	if n.fencedValid && term >= n.fencedTerm {
		n.fencedValid = false
	}
	if term > n.maxTrafficTerm {
		n.maxTrafficTerm = term
	}
}

func (n *Node) noteLeader(term int64) {
	n.noteReplicationFrom(term)
}

func (n *Node) answeredTerm() int64 {
	n.mu.Lock()
	defer n.mu.Unlock()
	return n.maxTermAnswered
}

func (n *Node) deletionCount() int {
	n.mu.Lock()
	defer n.mu.Unlock()
	return n.deletions
}

func (n *Node) noteDeleted() {
	n.mu.Lock()
	defer n.mu.Unlock()
	n.deletions++
	n.deleted = true
	n.fencedValid = false
}

// walEntries reads the node's current log through the WAL handle its controller uses.
func (n *Node) walEntries() ([]*proto.LogEntry, bool) {
	n.mu.Lock()
	wf := n.walF
	n.mu.Unlock()
	if wf == nil {
		return nil, false
	}
	w := wf.Last()
	if w == nil || w.Closed() {
		return nil, false
	}
	es, err := w.ReadAll()
	if err != nil && w.Closed() {
		return nil, false
	}
	return es, err == nil
}

// status asks the node for its status with a bound (a controller may hold its lock for a long time, e.g.
// a BecomeLeader waiting for a quorum).
func (n *Node) status() (*proto.GetStatusResponse, error) {
	if !n.isUp() {
		return nil, errUnavailable
	}
	type res struct {
		r   *proto.GetStatusResponse
		err error
	}
	ch := make(chan res, 1)
	r := n.rpc()
	go func() {
		st, err := r.GetStatus(context.Background(), &proto.GetStatusRequest{Shard: shardID})
		ch <- res{st, err}
	}()
	select {
	case x := <-ch:
		return x.r, x.err
	case <-time.After(300 * time.Millisecond):
		return nil, fmt.Errorf("harness: status not available within the bound")
	}
}

// ---- metadata provider wrapper ---------------------------------------------------------------------------

type recMeta struct {
	metadata.Provider
	hist *History
}

func (m *recMeta) Store(cs *model.ClusterStatus, v metadata.Version) (metadata.Version, error) {
	nv, err := m.Provider.Store(cs, v)
	if err == nil {
		if ns, ok := cs.Namespaces[nsName]; ok {
			if sm, ok := ns.Shards[shardID]; ok {
				leader := "-"
				if sm.Leader != nil {
					leader = sm.Leader.Internal
				}
				var ens, rem []string
				for _, s := range sm.Ensemble {
					ens = append(ens, s.Internal)
				}
				for _, s := range sm.RemovedNodes {
					rem = append(rem, s.Internal)
				}
				m.hist.add(Event{Kind: "meta.store", From: coordName, To: coordName, Term: sm.Term,
					Detail: fmt.Sprintf("status=%v leader=%s ensemble=%v removed=%v", sm.Status, leader, ens, rem)})
			}
		}
	}
	return nv, err
}

// ---- cluster config stub -----------------------------------------------------------------------------------

type stubConfig struct{ c *Cluster }

func (s *stubConfig) Close() error { return nil }
func (s *stubConfig) Load() *model.ClusterConfig {
	cfg := &model.ClusterConfig{Namespaces: []model.NamespaceConfig{*s.c.nsConfig}}
	for _, name := range s.c.order {
		cfg.Servers = append(cfg.Servers, s.c.nodes[name].server())
	}
	return cfg
}
func (s *stubConfig) Nodes() *linkedhashset.Set[string] {
	set := linkedhashset.New[string]()
	for _, name := range s.c.order {
		set.Add(name)
	}
	return set
}
func (s *stubConfig) NodesWithMetadata() (*linkedhashset.Set[string], map[string]model.ServerMetadata) {
	return s.Nodes(), map[string]model.ServerMetadata{}
}
func (s *stubConfig) NamespaceConfig(ns string) (*model.NamespaceConfig, bool) {
	if ns == nsName {
		return s.c.nsConfig, true
	}
	return nil, false
}
func (s *stubConfig) Node(id string) (*model.Server, bool) {
	if n, ok := s.c.nodes[id]; ok {
		sv := n.server()
		return &sv, true
	}
	return nil, false
}

var _ resources.ClusterConfigResource = (*stubConfig)(nil)

type nopListener struct{}

func (nopListener) LeaderElected(int64, model.Server, []model.Server) {}
func (nopListener) ShardDeleted(int64)                                {}

// ---- cluster ---------------------------------------------------------------------------------------------------

type Cluster struct {
	dir      string
	nodes    map[string]*Node
	order    []string
	wire     *Wire
	hist     *History
	meta     *recMeta
	nsConfig *model.NamespaceConfig
	statusRs resources.StatusResource
	sc       controllers.ShardController
	scMu     sync.Mutex
	rf       int
}

func (c *Cluster) node(name string) *Node { return c.nodes[name] }

// newCluster starts nNodes storage nodes (the first rf form the ensemble of shard 0) and the coordinator's
// shard controller, which runs its first election by itself.
func newCluster(dir string, nNodes, rf int, segSize int32) (*Cluster, error) {
	c := &Cluster{dir: dir, nodes: map[string]*Node{}, hist: &History{}, rf: rf}
	c.wire = newWire(c, c.hist)
	c.nsConfig = &model.NamespaceConfig{Name: nsName, InitialShardCount: 1, ReplicationFactor: uint32(rf)}
	for i := 0; i < nNodes; i++ {
		name := fmt.Sprintf("n%d", i)
		n := &Node{c: c, name: name, dir: filepath.Join(dir, name), segSize: segSize, maxTermAnswered: -1, maxTrafficTerm: -1}
		c.nodes[name] = n
		c.order = append(c.order, name)
		if err := n.start(); err != nil {
			return nil, err
		}
	}
	c.meta = &recMeta{Provider: metadata.NewMetadataProviderMemory(), hist: c.hist}
	var ens []model.Server
	for _, name := range c.order[:rf] {
		ens = append(ens, c.nodes[name].server())
	}
	st := model.NewClusterStatus()
	st.Namespaces[nsName] = model.NamespaceStatus{ReplicationFactor: uint32(rf), Shards: map[int64]model.ShardMetadata{
		shardID: {Status: model.ShardStatusUnknown, Term: -1, Ensemble: ens, Int32HashRange: model.Int32HashRange{Min: 0, Max: 0xFFFFFFFF}}}}
	st.ShardIdGenerator = 1
	if _, err := c.meta.Provider.Store(st, metadata.NotExists); err != nil {
		return nil, err
	}
	c.startCoordinator()
	return c, nil
}

// newBareCluster starts storage nodes without any coordinator (the harness plays leader / coordinator itself).
func newBareCluster(dir string, names []string, segSize int32) (*Cluster, error) {
	c := &Cluster{dir: dir, nodes: map[string]*Node{}, hist: &History{}, rf: len(names)}
	c.wire = newWire(c, c.hist)
	c.nsConfig = &model.NamespaceConfig{Name: nsName, InitialShardCount: 1, ReplicationFactor: uint32(len(names))}
	for _, name := range names {
		n := &Node{c: c, name: name, dir: filepath.Join(dir, name), segSize: segSize, maxTermAnswered: -1, maxTrafficTerm: -1}
		c.nodes[name] = n
		c.order = append(c.order, name)
		if err := n.start(); err != nil {
			return nil, err
		}
	}
	return c, nil
}

// startCoordinator builds a StatusResource and a ShardController from the stored metadata (what a
// (re)started coordinator does).
func (c *Cluster) startCoordinator() {
	c.scMu.Lock()
	defer c.scMu.Unlock()
	c.statusRs = resources.NewStatusResource(c.meta)
	sm := c.statusRs.Load().Namespaces[nsName].Shards[shardID]
	c.hist.add(Event{Kind: "coord.start", From: coordName, To: coordName, Term: sm.Term})
	c.sc = controllers.NewShardController(nsName, shardID, c.nsConfig, sm.Clone(), &stubConfig{c}, c.statusRs, nopListener{}, &coordRPC{w: c.wire})
}

func (c *Cluster) stopCoordinator() {
	c.scMu.Lock()
	sc := c.sc
	c.sc = nil
	c.scMu.Unlock()
	if sc != nil {
		done := make(chan struct{})
		go func() { _ = sc.Close(); close(done) }()
		select {
		case <-done:
		case <-time.After(5 * time.Second):
		}
		c.hist.add(Event{Kind: "coord.stop", From: coordName, To: coordName})
	}
}

func (c *Cluster) controller() controllers.ShardController {
	c.scMu.Lock()
	defer c.scMu.Unlock()
	return c.sc
}

// waitLeader waits (bounded) until the coordinator reports a steady state with a leader.
func (c *Cluster) waitLeader(bound time.Duration) (string, bool) {
	deadline := time.Now().Add(bound)
	for time.Now().Before(deadline) {
		if sc := c.controller(); sc != nil && sc.Status() == model.ShardStatusSteadyState {
			if l := sc.Leader(); l != nil {
				// the controller may still hold what it loaded from the metadata store: confirm with the node itself
				if n := c.nodes[l.Internal]; n != nil && n.isUp() {
					if st, err := n.status(); err == nil && st.Status == proto.ServingStatus_LEADER && st.Term == sc.Term() {
						return l.Internal, true
					}
				}
			}
		}
		time.Sleep(2 * time.Millisecond)
	}
	return "", false
}

func (c *Cluster) close() {
	c.stopCoordinator()
	for _, name := range c.order {
		c.nodes[name].stop()
	}
}

// ---- client operations ------------------------------------------------------------------------------------------

type Outcome int

const (
	OutcomeOK Outcome = iota
	OutcomeNotApplied
	OutcomeUnknown
)

func (o Outcome) String() string { return [...]string{"ok", "not-applied", "unknown"}[o] }

type ClientOp struct {
	ID       int
	Node     string
	Write    *proto.WriteRequest
	Read     *proto.GetRequest
	Tag      string
	InvSeq   int64 // history sequence number at invocation
	RetSeq   int64 // ... at return (0 = still pending at the end)
	Outcome  Outcome
	Resp     *proto.WriteResponse
	Get      *proto.GetResponse
	Err      string
	NodeTerm int64 // term the serving node reported right before the call
	// a List over the user keys (k1..k3): the keys returned
	List     *proto.ListRequest
	ListKeys []string
}

// classify maps an error to "definitely not applied" (raised before the WAL append) or unknown.
func classify(err error) Outcome {
	if err == nil {
		return OutcomeOK
	}
	code := status.Code(err)
	if code == constant.CodeNodeIsNotLeader || code == constant.CodeInvalidStatus || code == constant.CodeAlreadyClosed {
		// checkStatusIsLeader / GetLeader fail before an offset is allocated
		if strings.Contains(err.Error(), "failed to append") {
			return OutcomeUnknown
		}
		return OutcomeNotApplied
	}
	return OutcomeUnknown
}

func (c *Cluster) doWrite(op *ClientOp, bound time.Duration) {
	n := c.nodes[op.Node]
	op.InvSeq = c.hist.add(Event{Kind: "client.write.invoke", From: "client", To: op.Node, Detail: op.Tag})
	type res struct {
		r   *proto.WriteResponse
		err error
	}
	ch := make(chan res, 1)
	go func() {
		if !n.isUp() {
			ch <- res{nil, status.Error(constant.CodeNodeIsNotLeader, "node down")}
			return
		}
		lc, err := n.director.GetLeader(shardID)
		if err != nil {
			ch <- res{nil, err}
			return
		}
		r, err := lc.WriteBlock(context.Background(), op.Write.CloneVT())
		ch <- res{r, err}
	}()
	select {
	case r := <-ch:
		op.Resp = r.r
		op.Outcome = classify(r.err)
		op.Err = errStr(r.err)
	case <-time.After(bound):
		op.Outcome = OutcomeUnknown
		op.Err = "harness: no answer within the bound"
	}
	op.RetSeq = c.hist.add(Event{Kind: "client.write.return", From: op.Node, To: "client", Detail: op.Tag + " " + op.Outcome.String(), Err: op.Err})
}

type getCb struct {
	mu   sync.Mutex
	res  *proto.GetResponse
	done chan error
}

func (g *getCb) OnNext(r *proto.GetResponse) error {
	g.mu.Lock()
	g.res = r
	g.mu.Unlock()
	return nil
}
func (g *getCb) OnComplete(err error) {
	select {
	case g.done <- err:
	default:
	}
}

type listCb struct {
	mu   sync.Mutex
	keys []string
	done chan error
}

func (l *listCb) OnNext(k string) error {
	l.mu.Lock()
	l.keys = append(l.keys, k)
	l.mu.Unlock()
	return nil
}
func (l *listCb) OnComplete(err error) {
	select {
	case l.done <- err:
	default:
	}
}

// doList: like doRead, through the leader's List path (its own status check, its own iterator).
func (c *Cluster) doList(op *ClientOp, bound time.Duration) {
	n := c.nodes[op.Node]
	op.InvSeq = c.hist.add(Event{Kind: "client.read.invoke", From: "client", To: op.Node, Detail: "list"})
	cb := &listCb{done: make(chan error, 1)}
	var err error
	if !n.isUp() {
		err = errUnavailable
	} else if lc, e := n.director.GetLeader(shardID); e != nil {
		err = e
	} else {
		lc.List(context.Background(), op.List, cb)
		select {
		case err = <-cb.done:
		case <-time.After(bound):
			err = fmt.Errorf("harness: no answer within the bound")
		}
	}
	if err == nil {
		cb.mu.Lock()
		op.ListKeys = append([]string{}, cb.keys...)
		cb.mu.Unlock()
		op.Outcome = OutcomeOK
	} else {
		op.Outcome = OutcomeUnknown
		op.Err = errStr(err)
	}
	op.RetSeq = c.hist.add(Event{Kind: "client.read.return", From: op.Node, To: "client", Detail: "list " + op.Outcome.String(), Err: op.Err})
}

func (c *Cluster) doRead(op *ClientOp, bound time.Duration) {
	n := c.nodes[op.Node]
	op.InvSeq = c.hist.add(Event{Kind: "client.read.invoke", From: "client", To: op.Node, Detail: op.Read.Key})
	cb := &getCb{done: make(chan error, 1)}
	var err error
	if !n.isUp() {
		err = errUnavailable
	} else if lc, e := n.director.GetLeader(shardID); e != nil {
		err = e
	} else {
		lc.Read(context.Background(), &proto.ReadRequest{Gets: []*proto.GetRequest{op.Read}}, cb)
		select {
		case err = <-cb.done:
		case <-time.After(bound):
			err = fmt.Errorf("harness: no answer within the bound")
		}
	}
	if err == nil {
		cb.mu.Lock()
		op.Get = cb.res
		cb.mu.Unlock()
		op.Outcome = OutcomeOK
	} else {
		op.Outcome = OutcomeUnknown
		op.Err = errStr(err)
	}
	op.RetSeq = c.hist.add(Event{Kind: "client.read.return", From: op.Node, To: "client", Detail: op.Read.Key + " " + op.Outcome.String(), Err: op.Err})
}

// ---- C03: checks at the instant an ack leaves a follower ----------------------------------------------------------

func (c *Cluster) onAck(s *repStream, offset int64) {
	n := s.fnode
	n.mu.Lock()
	wf, inc := n.walF, n.inc
	n.mu.Unlock()
	if inc != s.finc || wf == nil {
		return
	}
	w := wf.Last()
	if w == nil || w.Closed() {
		return
	}
	if last := w.LastOffset(); last < offset {
		// an offset at or below the commit offset of the follower's database is covered by what it has applied
		// or installed from a snapshot (the WAL is empty after a snapshot installation)
		if dbCommitOffset(n.kvF.Last()) >= offset {
			return
		}
		if !w.Closed() {
			c.wire.violation("C03: follower %s acknowledged offset %d on a term-%d stream while its durable (synced) log head is %d", s.follower, offset, s.term, last)
		}
		return
	}
	s.mu.Lock()
	want := s.sent[offset]
	s.mu.Unlock()
	if want == nil {
		// acked without having been sent on this stream (duplicate path): compare with the leader's own log
		if ln := c.nodes[s.leader]; ln != nil && ln.isUp() {
			if es, ok := ln.walEntries(); ok {
				for _, e := range es {
					if e.Offset == offset {
						want = e
					}
				}
			}
		}
	}
	if want == nil {
		return
	}
	rd, err := w.NewReader(offset - 1)
	if err != nil {
		return
	}
	defer rd.Close()
	got, err := rd.ReadNext()
	if err != nil || got == nil {
		return
	}
	if got.Term != want.Term || string(got.Value) != string(want.Value) {
		c.wire.violation("C03: follower %s acknowledged offset %d to the leader of term %d but stores a different entry there (term %d) than the leader sent (term %d)",
			s.follower, offset, s.term, got.Term, want.Term)
	}
}

// ---- C04: a fenced node's log does not grow ---------------------------------------------------------------------------

func (c *Cluster) checkFenced(where string) {
	for _, name := range c.order {
		n := c.nodes[name]
		n.mu.Lock()
		valid, head, term, finc, inc, wf, up := n.fencedValid, n.fencedHead, n.fencedTerm, n.fencedInc, n.inc, n.walF, n.up
		n.mu.Unlock()
		if !valid || !up || finc != inc || wf == nil || head == nil {
			continue
		}
		w := wf.Last()
		if w == nil || w.Closed() {
			continue
		}
		last := w.LastOffset()
		// re-check validity: traffic of a newer term may have arrived meanwhile
		n.mu.Lock()
		still := n.fencedValid && n.fencedTerm == term
		n.mu.Unlock()
		if !still || w.Closed() {
			continue
		}
		if last > head.Offset {
			c.wire.violation("C04: %s: node %s answered NewTerm(%d) with head (%d,%d) but its log has grown to offset %d without any entry or truncation from a leader of a term >= %d",
				where, name, term, head.Term, head.Offset, last, term)
		}
	}
}

var _ = io.EOF
var _ = os.Remove

// ---- panics on node goroutines -------------------------------------------------------------------------------------

var (
	panicMu  sync.Mutex
	panicLog []string
)

// installPanicHandler makes a panic on a goroutine that oxia started through process.DoWithLabels the crash
// of "a node" instead of the death of the test process (several nodes share the process). The case in which it
// happens is abandoned as inconclusive and the panic is counted in the evidence.
func installPanicHandler() {
	process.VerifPanicHandler = func(labels map[string]string, v any, stack []byte) {
		first := fmt.Sprintf("panic on node goroutine %v: %v", labels["oxia"], v)
		for _, l := range strings.Split(string(stack), "\n") {
			if strings.Contains(l, "github.com/oxia-db/oxia/") && !strings.Contains(l, "verifRecover") && !strings.Contains(l, "/process.") {
				first += " at " + strings.TrimSpace(l)
				break
			}
		}
		notePanic(first)
	}
}

func notePanic(s string) {
	panicMu.Lock()
	panicLog = append(panicLog, s)
	panicMu.Unlock()
}

func takePanics() []string {
	panicMu.Lock()
	defer panicMu.Unlock()
	out := panicLog
	panicLog = nil
	return out
}

// dbCommitOffset reads the commit offset record of a node's database through its KV handle (-1 if unavailable).
func dbCommitOffset(k kv.KV) (off int64) {
	off = -1
	defer func() {
		if r := recover(); r != nil {
			off = -1
		}
	}()
	if k == nil {
		return -1
	}
	_, v, closer, err := k.Get("__oxia/commit-offset", kv.ComparisonEqual)
	if err != nil {
		return -1
	}
	defer closer.Close()
	se := &proto.StorageEntry{}
	if err := se.UnmarshalVT(v); err != nil {
		return -1
	}
	var x int64
	if _, err := fmt.Sscanf(string(se.Value), "%d", &x); err != nil {
		return -1
	}
	return x
}

var shardIDv = shardID
