//go:build verif

package clusterx

import (
	"context"
	"fmt"
	"os"
	"runtime"
	"strings"
	"sync"
	"testing"
	"time"

	"pgregory.net/rapid"

	"github.com/oxia-db/oxia/proto"

	"verifharness/evid"
)

type lentry struct {
	term  int64
	value string
}

const (
	kfDupAckBeforeSync = "C03:duplicate-append-acknowledged-before-sync"
)

// runFollower: one real follower node under a leader scripted by the harness: appends, re-deliveries after a
// reconnect, WAL sync parked/released, elections with diverging leader logs, truncations.
func runFollower(t *rapid.T, focus string) {
	takePanics()
	dir, err := os.MkdirTemp(tmpRoot, "fol-")
	if err != nil {
		t.Fatalf("mkdtemp: %v", err)
	}
	defer os.RemoveAll(dir)
	seg := rapid.SampledFrom([]int32{1024, 4096, 64 * 1024}).Draw(t, "segSize")
	c, err := newBareCluster(dir, []string{"f"}, seg)
	if err != nil {
		t.Fatalf("cluster: %v", err)
	}
	defer c.close()
	f := c.nodes["f"]
	lrpc := &nodeRPC{w: c.wire, from: "L"}
	var hist []string
	logf := func(format string, a ...any) { hist = append(hist, fmt.Sprintf(format, a...)) }

	var llog []lentry // the (current) leader's log
	term := int64(-1)
	refusedTerm := int64(-2) // the term in which the leader refused this follower (no stream in that term)
	var stream *repClient
	sentNext := int64(0)
	acked := int64(-1) // highest contiguous offset acknowledged to the current leader
	ackSet := map[int64]bool{}
	advertised := int64(-1)
	labelOther := false
	staleSnap := false
	tagN := 0
	unsyncedAtFence, redelivered, truncated, diverged := false, false, false, false

	// one-shot sync gate
	var gateMu sync.Mutex
	var gate chan struct{}
	parkedCh := make(chan struct{}, 16)
	f.walF.SetGates(nil, nil, func() {
		// only the follower's replicate-sync goroutine is parked (NewTerm syncs the WAL itself)
		if !calledFrom("handleReplicateSync") {
			return
		}
		gateMu.Lock()
		g := gate
		gate = nil
		gateMu.Unlock()
		if g != nil {
			select {
			case parkedCh <- struct{}{}:
			default:
			}
			select {
			case <-g:
			case <-time.After(5 * time.Second):
			}
		}
	}, nil)
	var pending []chan struct{}
	releaseAll := func() {
		gateMu.Lock()
		gate = nil
		gateMu.Unlock()
		for _, g := range pending {
			close(g)
		}
		pending = nil
	}
	defer releaseAll()

	drain := func() {
		if stream == nil {
			return
		}
		for {
			select {
			case a := <-stream.s.toLeader:
				// acks may arrive out of order (a re-delivered entry is acknowledged when it becomes durable):
				// the leader counts each offset separately; "acked" is the contiguous acknowledged prefix
				ackSet[a.Offset] = true
				for ackSet[acked+1] {
					acked++
				}
				if acked > advertised {
					advertised = acked
				}
			default:
				return
			}
		}
	}
	entryOf := func(o int64) *proto.LogEntry {
		lev := &proto.LogEntryValue{Value: &proto.LogEntryValue_Requests{Requests: &proto.WriteRequests{Writes: []*proto.WriteRequest{
			{Puts: []*proto.PutRequest{{Key: "k", Value: []byte(llog[o].value)}, {Key: "m/" + llog[o].value, Value: []byte(llog[o].value)}}}}}}}
		b, _ := lev.MarshalVT()
		return &proto.LogEntry{Term: llog[o].term, Offset: o, Value: b, Timestamp: uint64(1000 + o)}
	}
	openStream := func() {
		if stream != nil {
			stream.s.breakStream(errUnavailable)
		}
		st, err := lrpc.GetReplicateStream(context.Background(), "f", nsName, shardID, term)
		if err != nil {
			stream = nil
			return
		}
		stream = st.(*repClient)
		sentNext = acked + 1
	}
	check := func(where string) {
		c.checkFenced(where)
		var mine []string
		for _, v := range c.wire.violations {
			if strings.HasPrefix(v, focus+":") {
				if strings.Contains(v, "acknowledged offset") && strings.Contains(v, "durable (synced) log head") && evid.Known(kfDupAckBeforeSync) {
					continue
				}
				mine = append(mine, v)
			}
		}
		if len(mine) > 0 {
			var ev []string
			for _, e := range c.hist.snapshot() {
				ev = append(ev, e.String())
			}
			t.Fatalf("%s (%s)\nsteps=%v\nhistory:\n%s", strings.Join(mine, "\n"), where, hist, strings.Join(ev, "\n"))
		}
		if ps := takePanics(); len(ps) > 0 {
			t.Skip("inconclusive: " + ps[0])
		}
	}

	// settledLog: the follower's log once nothing of the current term is in flight any more (no parked sync, two
	// identical readings 10 ms apart); ok=false when it does not settle
	settledLog := func() ([]*proto.LogEntry, bool) {
		if len(pending) > 0 {
			return nil, false
		}
		prev, ok := f.walEntries()
		for i := 0; ok && i < 20; i++ {
			time.Sleep(10 * time.Millisecond)
			cur, ok2 := f.walEntries()
			if !ok2 {
				return nil, false
			}
			if len(cur) == len(prev) {
				return cur, true
			}
			prev = cur
		}
		return nil, false
	}
	t.Repeat(map[string]func(*rapid.T){
		"election": func(t *rapid.T) {
			drain()
			term++
			// is there an appended-but-unsynced tail at this instant?
			if w := f.walF.Last(); w != nil && !w.Closed() && len(pending) > 0 {
				unsyncedAtFence = true
			}
			res, err := f.rpc().NewTerm(context.Background(), &proto.NewTermRequest{Namespace: nsName, Shard: shardID, Term: term,
				Options: &proto.NewTermOptions{EnableNotifications: true}})
			if err != nil {
				// e.g. the node is in the middle of a role change triggered by the stream that was just opened:
				// the coordinator would retry later
				logf("NewTerm(%d) refused: %v", term, err)
				term--
				return
			}
			head := res.HeadEntryId
			c.hist.add(Event{Kind: "newterm.answered", From: "f", To: coordName, Term: term, Head: head})
			f.noteFenced(term, head)
			logf("NewTerm(%d)->head(%d,%d)", term, head.Term, head.Offset)
			// the new leader: same log, or a log that diverges above the committed (advertised) offset
			if len(llog) > 0 && rapid.Bool().Draw(t, "diverge") {
				keep := rapid.Int64Range(advertised, int64(len(llog))-1).Draw(t, "keepUpTo")
				if keep < int64(len(llog))-1 {
					llog = llog[:keep+1]
					diverged = true
				}
			}
			nNew := rapid.IntRange(0, 3).Draw(t, "newEntries")
			for i := 0; i < nNew; i++ {
				tagN++
				llog = append(llog, lentry{term, fmt.Sprintf("t%d.%d", term, tagN)})
			}
			logf("leader(term %d) log len=%d", term, len(llog))
			// what the real leader does with the follower's head (truncateFollowerIfNeeded)
			fh := head
			acked = -1
			ackSet = map[int64]bool{}
			lh := &proto.EntryId{Term: -1, Offset: -1}
			if len(llog) > 0 {
				lh = &proto.EntryId{Term: llog[len(llog)-1].term, Offset: int64(len(llog)) - 1}
			}
			if fh.Term > lh.Term {
				// a follower whose head is of a higher term than the leader's head is refused by the real leader
				// (the coordinator would have elected it instead): no stream in this term
				logf("leader refuses follower (head term %d > leader head term %d)", fh.Term, lh.Term)
				if stream != nil {
					stream.s.breakStream(errUnavailable)
					stream = nil
				}
				refusedTerm = term
				return
			}
			if !(fh.Term == lh.Term && fh.Offset <= lh.Offset) {
				// highest leader entry with term <= follower head term
				last := &proto.EntryId{Term: -1, Offset: -1}
				for o := int64(len(llog)) - 1; o >= 0; o-- {
					if llog[o].term <= fh.Term {
						last = &proto.EntryId{Term: llog[o].term, Offset: o}
						break
					}
				}
				if !(fh.Term == last.Term && fh.Offset <= last.Offset) {
					tr, err := lrpc.Truncate("f", &proto.TruncateRequest{Namespace: nsName, Shard: shardID, Term: term, HeadEntryId: last})
					if err != nil {
						t.Fatalf("%s: Truncate refused: %v; steps=%v", focus, err, hist)
					}
					fh = tr.HeadEntryId
					truncated = true
					logf("Truncate->(%d,%d)", fh.Term, fh.Offset)
				}
			}
			if fh.Offset >= int64(len(llog)) {
				// follower claims more than the leader has within the same term: cannot happen with a correct head report
				fh = &proto.EntryId{Term: fh.Term, Offset: int64(len(llog)) - 1}
			}
			acked = fh.Offset
			openStream()
		},
		"otherFollowerAcks": func(t *rapid.T) {
			// the ensemble has a second follower the test does not model: whatever it acknowledges is committed by the
			// leader without this follower, so the commit offset carried by the next appends may be anywhere up to
			// the leader's head
			if term < 0 || int64(len(llog))-1 <= advertised {
				t.Skip("nothing to commit")
			}
			advertised = rapid.Int64Range(advertised+1, int64(len(llog))-1).Draw(t, "commitByOther")
			logf("other follower acks: commit offset %d", advertised)
			labelOther = true
		},
		"grow": func(t *rapid.T) {
			if term < 0 {
				t.Skip("no leader")
			}
			tagN++
			llog = append(llog, lentry{term, fmt.Sprintf("t%d.%d", term, tagN)})
		},
		"send": func(t *rapid.T) {
			if stream == nil || sentNext >= int64(len(llog)) {
				t.Skip("nothing to send")
			}
			n := rapid.IntRange(1, 3).Draw(t, "burst")
			for i := 0; i < n && sentNext < int64(len(llog)); i++ {
				drain()
				if err := stream.Send(&proto.Append{Term: term, Entry: entryOf(sentNext), CommitOffset: advertised}); err != nil {
					stream = nil
					return
				}
				logf("Append(%d)", sentNext)
				sentNext++
			}
			time.Sleep(time.Duration(rapid.IntRange(0, 3).Draw(t, "afterSendMs")) * time.Millisecond)
		},
		"staleSnapshot": func(t *rapid.T) {
			// a deposed leader that still believes it leads opens a snapshot stream in its old term: the fenced /
			// following node must refuse it, and nothing it holds may change
			if term < 1 {
				t.Skip("no older term")
			}
			if stream != nil {
				stream.s.breakStream(errUnavailable)
				stream = nil
				time.Sleep(2 * time.Millisecond)
			}
			old := rapid.Int64Range(0, term-1).Draw(t, "olderTerm")
			before, okBefore := settledLog()
			if !okBefore {
				t.Skip("the log is not settled")
			}
			commitBefore := dbCommitOffset(f.kvF.Last())
			sc, err := lrpc.SendSnapshot(context.Background(), "f", nsName, shardID, old)
			logf("staleSnapshot(term %d)", old)
			if err == nil {
				_ = sc.Send(&proto.SnapshotChunk{Term: old, Name: "MANIFEST-000001", ChunkIndex: 0, ChunkCount: 1, Content: []byte("stale")})
				if _, rerr := sc.CloseAndRecv(); rerr == nil {
					c.wire.violation("%s: the node (term %d) accepted a snapshot from a leader of term %d", focus, term, old)
				}
			}
			after, okAfter := f.walEntries()
			if okBefore && okAfter && len(after) < len(before) {
				c.wire.violation("%s: a snapshot stream of the older term %d (the node is in term %d) was refused, but the node's log went from %d entries to %d", focus, old, term, len(before), len(after))
			}
			if ca := dbCommitOffset(f.kvF.Last()); ca < commitBefore {
				c.wire.violation("%s: a snapshot stream of the older term %d (the node is in term %d) was refused, but the node's database went from commit offset %d to %d", focus, old, term, commitBefore, ca)
			}
			staleSnap = true
			check("after a stale snapshot stream")
		},
		"staleTruncateOrAppend": func(t *rapid.T) {
			// the same deposed leader tries its other two requests in its old term: a truncation, and an append on a
			// replication stream. Both must be refused without touching the log.
			if term < 1 {
				t.Skip("no older term")
			}
			old := rapid.Int64Range(0, term-1).Draw(t, "olderTerm")
			if stream != nil {
				stream.s.breakStream(errUnavailable)
				stream = nil
				time.Sleep(2 * time.Millisecond)
			}
			before, okBefore := settledLog()
			if !okBefore {
				t.Skip("the log is not settled")
			}
			if rapid.Bool().Draw(t, "truncate") {
				cut := int64(rapid.IntRange(-1, len(before)).Draw(t, "cutAt"))
				_, err := lrpc.Truncate("f", &proto.TruncateRequest{Namespace: nsName, Shard: shardID, Term: old, HeadEntryId: &proto.EntryId{Term: old, Offset: cut}})
				logf("staleTruncate(term %d, to %d) -> %v", old, cut, err)
				if err == nil {
					c.wire.violation("%s: the node (term %d) executed a truncation requested by a leader of term %d", focus, term, old)
				}
			} else {
				if stream != nil {
					stream.s.breakStream(errUnavailable)
					stream = nil
					time.Sleep(2 * time.Millisecond)
				}
				st, err := lrpc.GetReplicateStream(context.Background(), "f", nsName, shardID, old)
				logf("staleAppend(term %d)", old)
				if err == nil {
					rc := st.(*repClient)
					next := int64(len(before))
					lev := &proto.LogEntryValue{Value: &proto.LogEntryValue_Requests{Requests: &proto.WriteRequests{Writes: []*proto.WriteRequest{{Puts: []*proto.PutRequest{{Key: "stale", Value: []byte("x")}}}}}}}
					b, _ := lev.MarshalVT()
					_ = rc.Send(&proto.Append{Term: old, Entry: &proto.LogEntry{Term: old, Offset: next, Value: b, Timestamp: 5}, CommitOffset: next})
					time.Sleep(5 * time.Millisecond)
					rc.s.breakStream(errUnavailable)
					time.Sleep(2 * time.Millisecond)
				}
			}
			after, okAfter := f.walEntries()
			if okBefore && okAfter {
				// entries of the current term that were still on their way may have arrived meanwhile; what must not
				// happen: an entry lost or replaced, or the stale request's own entry stored
				if len(after) < len(before) {
					c.wire.violation("%s: a request of the older term %d (the node is in term %d) shortened the node's log from %d entries to %d", focus, old, term, len(before), len(after))
				} else {
					for i := range before {
						if after[i].Term != before[i].Term || string(after[i].Value) != string(before[i].Value) {
							c.wire.violation("%s: a request of the older term %d (the node is in term %d) changed the entry at offset %d", focus, old, term, after[i].Offset)
							break
						}
					}
					for _, e := range after[len(before):] {
						if strings.Contains(string(e.Value), "stale") {
							c.wire.violation("%s: the node (term %d) stored the entry of an append sent in the older term %d at offset %d", focus, term, old, e.Offset)
							break
						}
					}
				}
			}
			check("after a stale-term truncate / append")
		},
		"reconnect": func(t *rapid.T) {
			if term < 0 || term == refusedTerm {
				t.Skip("no leader / follower refused in this term")
			}
			drain()
			if sentNext > acked+1 {
				redelivered = true
			}
			logf("reconnect (cursor restarts at %d)", acked+1)
			openStream()
		},
		"parkSync": func(t *rapid.T) {
			gateMu.Lock()
			if gate == nil {
				g := make(chan struct{})
				gate = g
				pending = append(pending, g)
				logf("parkNextSync")
			}
			gateMu.Unlock()
		},
		"releaseSync": func(t *rapid.T) {
			if len(pending) == 0 {
				t.Skip("nothing parked")
			}
			logf("releaseSync")
			releaseAll()
			time.Sleep(2 * time.Millisecond)
		},
		"": func(t *rapid.T) {
			drain()
			check("invariant")
		},
	})
	releaseAll()
	// let the follower finish what it has received
	deadline := time.Now().Add(500 * time.Millisecond)
	for time.Now().Before(deadline) {
		drain()
		if stream == nil || acked >= sentNext-1 {
			break
		}
		time.Sleep(time.Millisecond)
	}
	check("end")
	// every acknowledged offset holds exactly the current leader's entry
	if es, ok := f.walEntries(); ok && term >= 0 {
		got := map[int64]*proto.LogEntry{}
		for _, e := range es {
			got[e.Offset] = e
		}
		for o := int64(0); o <= acked && o < int64(len(llog)); o++ {
			e, have := got[o]
			if !have {
				if dbCommitOffset(f.kvF.Last()) >= o {
					continue
				}
				c.wire.violation("C03: follower acknowledged offset %d to the leader of term %d but does not hold offset %d", acked, term, o)
				break
			}
			want := entryOf(o)
			if e.Term != want.Term || string(e.Value) != string(want.Value) {
				c.wire.violation("C03: follower acknowledged offset %d to the leader of term %d but at offset %d it stores an entry of term %d while the leader's log holds one of term %d",
					acked, term, o, e.Term, want.Term)
				break
			}
		}
	}
	check("final log comparison")
	var labels []string
	for n, on := range map[string]bool{"unsynced_tail_at_newterm": unsyncedAtFence, "redelivery": redelivered, "truncate": truncated, "diverging_leader_log": diverged, "commit_ahead_of_this_follower": labelOther, "stale_term_snapshot_refused": staleSnap} {
		if on {
			labels = append(labels, n)
		}
	}
	evid.Case(focus, redelivered || truncated || unsyncedAtFence, strings.Join(hist, "; "), labels...)
}

func TestC03_Follower(t *testing.T) { rapid.Check(t, func(t *rapid.T) { runFollower(t, "C03") }) }
func TestC04_Follower(t *testing.T) { rapid.Check(t, func(t *rapid.T) { runFollower(t, "C04") }) }

// calledFrom tells whether a function whose name contains name is on the current goroutine's stack.
func calledFrom(name string) bool {
	pcs := make([]uintptr, 32)
	n := runtime.Callers(2, pcs)
	frames := runtime.CallersFrames(pcs[:n])
	for {
		fr, more := frames.Next()
		if strings.Contains(fr.Function, name) {
			return true
		}
		if !more {
			return false
		}
	}
}
