//go:build verif

package clusterx

// Scripted re-confirmation of the listed finding "snapshot-installed node reports the head of its emptied log":
// a node that has installed a snapshot answers NewTerm with head (-1,-1) although its database is at commit offset
// k; when every electable node is in that situation, a leader with an "empty log" is installed over a database at
// offset k, the next write takes offset 0 again and the acknowledged entries are gone from every log.
//
// The history that makes both followers install a snapshot (found by the thorough tier, TestC01_Cluster seed
// 112649): the leader restarts and a duplicate of the BecomeLeader of its own term, which carries the followers'
// heads as they were at the election ((-1,-1)), is delivered to it late.

import (
	"fmt"
	"os"
	"strings"
	"testing"
	"time"

	"github.com/oxia-db/oxia/proto"

	"verifharness/evid"
)

func TestKF_C01_SnapHead(t *testing.T) { kfSnapHeadRun(t, "C01") }
func TestKF_C02_SnapHead(t *testing.T) { kfSnapHeadRun(t, "C02") }
func TestKF_C03_SnapHead(t *testing.T) { kfSnapHeadRun(t, "C03") }
func TestKF_C04_SnapHead(t *testing.T) { kfSnapHeadRun(t, "C04") }

func kfSnapHeadRun(t *testing.T, prop string) {
	sig := prop + ":" + kfSnapHead
	if !evid.Known(sig) {
		return
	}
	for attempt := 0; attempt < 4; attempt++ {
		if kfSnapHeadOnce(t, prop, sig) {
			return
		}
	}
}

func kfSnapHeadOnce(t *testing.T, prop, sig string) bool {
	dir, err := os.MkdirTemp(tmpRoot, "kfsh-")
	if err != nil {
		t.Fatalf("mkdtemp: %v", err)
	}
	defer os.RemoveAll(dir)
	c, err := newCluster(dir, 3, 3, 64*1024)
	if err != nil {
		t.Fatalf("cluster: %v", err)
	}
	defer c.close()
	leader, ok := c.waitLeader(10 * time.Second)
	if !ok {
		return false
	}
	w1 := &ClientOp{ID: 1, Node: leader, Tag: "kfs1", Write: &proto.WriteRequest{Puts: []*proto.PutRequest{{Key: "a", Value: []byte("1")}, {Key: "m/kfs1", Value: []byte("kfs1")}}}}
	c.doWrite(w1, 3*time.Second)
	if w1.Outcome != OutcomeOK {
		return false
	}
	// the BecomeLeader the leader was installed with
	idx := -1
	c.wire.mu.Lock()
	for i, m := range c.wire.sent {
		if m.kind == "becomeleader" && m.node == leader {
			idx = i
		}
	}
	c.wire.mu.Unlock()
	if idx < 0 {
		return false
	}
	// the coordinator must not interfere with the script from here on
	c.stopCoordinator()
	c.hist.add(Event{Kind: "node.restart", From: leader, To: leader})
	c.nodes[leader].stop()
	if err := c.nodes[leader].start(); err != nil {
		return false
	}
	if res := c.wire.deliverLate(idx); !strings.Contains(res, "accepted") {
		return false
	}
	var followers []string
	for _, n := range c.order[:3] {
		if n != leader {
			followers = append(followers, n)
		}
	}
	// both followers install the snapshot the re-installed leader sends them
	deadline := time.Now().Add(6 * time.Second)
	for {
		acked := map[string]bool{}
		for _, e := range c.hist.snapshot() {
			if e.Kind == "snapshot.ack" {
				acked[e.From] = true
			}
		}
		if acked[followers[0]] && acked[followers[1]] {
			break
		}
		if time.Now().After(deadline) {
			return false
		}
		time.Sleep(20 * time.Millisecond)
	}
	// the leader goes away; a new election
	c.nodes[leader].stop()
	c.startCoordinator()
	nl, ok := c.waitLeader(8 * time.Second)
	if !ok {
		return false
	}
	hb := c.wire.reportedHeadsBelowCommit()
	if len(hb) == 0 {
		return true // the finding did not reproduce in this run
	}
	scenario := fmt.Sprintf("ensemble {%s,%s,%s}, leader %s, one acknowledged write (offset 0); %s restarts and a late duplicate of its own BecomeLeader (followers' heads (-1,-1)) re-installs it: it sends both followers a snapshot, which empties their logs; then %s stops and the coordinator elects: %s",
		leader, followers[0], followers[1], leader, leader, leader, hb[0])
	switch prop {
	case "C04":
		evid.KnownFinding("C04", fmt.Sprintf("%s: %s: the fenced node does not report its true head", sig, scenario))
	case "C01", "C03", "C02":
		w2 := &ClientOp{ID: 2, Node: nl, Tag: "kfs2", Write: &proto.WriteRequest{Puts: []*proto.PutRequest{{Key: "b", Value: []byte("2")}, {Key: "m/kfs2", Value: []byte("kfs2")}}}}
		c.doWrite(w2, 3*time.Second)
		es, okLog := c.nodes[nl].walEntries()
		if !okLog {
			return false
		}
		hasW1 := false
		what := "nothing"
		for _, e := range es {
			for _, tag := range entryTagsOf(e) {
				if tag == "kfs1" {
					hasW1 = true
				}
			}
			if e.Offset == 0 {
				what = fmt.Sprintf("an entry of term %d %v", e.Term, entryTagsOf(e))
			}
		}
		if hasW1 {
			return true
		}
		switch prop {
		case "C01":
			evid.KnownFinding("C01", fmt.Sprintf("%s: %s; %s is installed with an 'empty' log over a database at offset 0, and the acknowledged write is in no log any more (the log of %s holds %s at offset 0)", sig, scenario, nl, nl, what))
		case "C03":
			evid.KnownFinding("C03", fmt.Sprintf("%s: %s; the old leader and both followers had acknowledged entry (term 1... offset 0) of the first write, the log of the new leader %s holds %s at offset 0: replica logs diverge at an acknowledged offset", sig, scenario, nl, what))
		case "C02":
			r := &ClientOp{ID: 3, Node: nl, Tag: "kfsr", Read: &proto.GetRequest{Key: "a", IncludeValue: true}}
			c.doRead(r, 3*time.Second)
			st := "?"
			if r.Get != nil {
				st = r.Get.Status.String()
			}
			evid.KnownFinding("C02", fmt.Sprintf("%s: %s; a read of key 'a' on the new leader %s answers %s with the value of a write that is not in the committed log of that leader (the log holds %s at offset 0): the state served matches no prefix of the log", sig, scenario, nl, st, what))
		}
	}
	return true
}
