//go:build verif

package clusterx

// Listed finding "old-term entries committed by a later leader conflict with entries of an intermediate term"
// (found by the thorough tier, TestC02_Cluster seed 1791163). A leader never writes an entry of its own term when it
// is installed: entries it holds from an older term t are committed during its leadership in term T > t but keep
// term t. A node that was cut off while it led a term t' in between (t < t' < T) and holds an unreplicated entry of
// t' reports a head (t', o) that the coordinator ranks above every (t, o'), is elected, and truncates the committed
// entries away - the situation of figure 8 in the Raft paper, which Raft excludes by committing entries of older
// terms only together with an entry of the current term. When the holder of the stale entries is not elected but
// added as a follower, it is truncated to the leader's highest entry of a term <= t', although its log differs from
// the leader's below that offset (thorough tier, TestC03_Cluster seed 1369397).
//
// staleTermWinners recognises the root cause in a recorded history; TestKF_C02_StaleTerm / TestKF_C03_StaleTerm
// re-confirm it with a scripted history on every run.

import (
	"fmt"
	"os"
	"testing"
	"time"

	"github.com/oxia-db/oxia/proto"

	"verifharness/evid"
)

const kfStaleTerm = "old-term-entries-committed-by-a-later-leader-conflict-with-entries-of-an-intermediate-term"

func staleTermKnown(focus string) bool { return evid.Known(focus + ":" + kfStaleTerm) }

// staleTermWinners: a node L is installed as leader of term T with a log whose head entry is of an older term t,
// and another node X answers a NewTerm of term T or later with a head entry of a term t' in between (t < t' < T):
// X's entries of term t' were never replicated (or L would not have been chosen), L commits its old-term entries
// as they are, and then either X is ranked above them at a later election and truncates them away, or X is added as
// a follower and truncated to "the leader's highest entry of a term <= t'", below which its log differs.
func staleTermWinners(evs []Event) []string {
	type est struct {
		term, headTerm int64
		node           string
	}
	heads := map[string]map[int64]*proto.EntryId{}
	var established []est
	for _, e := range evs {
		switch e.Kind {
		case "newterm.answered":
			if e.Head != nil {
				if heads[e.From] == nil {
					heads[e.From] = map[int64]*proto.EntryId{}
				}
				heads[e.From][e.Term] = e.Head
			}
		case "becomeleader.ok":
			if h := heads[e.From][e.Term]; h != nil {
				established = append(established, est{e.Term, h.Term, e.From})
			}
		}
	}
	var out []string
	seen := map[string]bool{}
	for _, e := range evs {
		if e.Kind != "newterm.answered" || e.Head == nil {
			continue
		}
		for _, x := range established {
			if x.node != e.From && e.Term >= x.term && x.headTerm >= 0 && x.headTerm < e.Head.Term && e.Head.Term < x.term {
				k := fmt.Sprintf("%s/%d/%s/%d", e.From, e.Head.Term, x.node, x.term)
				if seen[k] {
					continue
				}
				seen[k] = true
				out = append(out, fmt.Sprintf("%s answers NewTerm(%d) with head (term %d, offset %d), an entry written in term %d; %s had been installed as leader of term %d with a log whose head entry was of term %d: what %s committed of that log in term %d conflicts with the entries %s holds",
					e.From, e.Term, e.Head.Term, e.Head.Offset, e.Head.Term, x.node, x.term, x.headTerm, x.node, x.term, e.From))
			}
		}
	}
	return out
}

func TestKF_C02_StaleTerm(t *testing.T) { kfStaleTermRun(t, "C02") }
func TestKF_C03_StaleTerm(t *testing.T) { kfStaleTermRun(t, "C03") }

func kfStaleTermRun(t *testing.T, prop string) {
	sig := prop + ":" + kfStaleTerm
	if !evid.Known(sig) {
		return
	}
	for attempt := 0; attempt < 4; attempt++ {
		if kfStaleTermOnce(t, prop, sig) {
			return
		}
	}
}

func kfStaleTermOnce(t *testing.T, prop, sig string) bool {
	dir, err := os.MkdirTemp(tmpRoot, "kfst-")
	if err != nil {
		t.Fatalf("mkdtemp: %v", err)
	}
	defer os.RemoveAll(dir)
	c, err := newCluster(dir, 3, 3, 64*1024)
	if err != nil {
		t.Fatalf("cluster: %v", err)
	}
	defer c.close()
	a, ok := c.waitLeader(10 * time.Second)
	if !ok {
		t.Logf("kfStaleTerm: gave up at point 1")
		return false
	}
	isolate := func(n string) {
		for _, o := range c.order {
			if o != n {
				c.wire.setLink(n, o, false)
			}
		}
		c.wire.setLink(coordName, n, false)
	}
	join := func(n string, peers ...string) {
		for _, o := range peers {
			c.wire.setLink(n, o, true)
		}
		c.wire.setLink(coordName, n, true)
	}
	put := func(id int, node, key, tag string, bound time.Duration) *ClientOp {
		op := &ClientOp{ID: id, Node: node, Tag: tag, Write: &proto.WriteRequest{Puts: []*proto.PutRequest{{Key: key, Value: []byte(tag)}, {Key: "m/" + tag, Value: []byte(tag)}}}}
		c.doWrite(op, bound)
		return op
	}
	if put(1, a, "a", "kft0", 3*time.Second).Outcome != OutcomeOK {
		t.Logf("kfStaleTerm: gave up at point 2")
		return false
	}
	// A is cut off and takes a write it cannot replicate: entry (term of A, offset 1)
	isolate(a)
	if put(2, a, "b", "kft1", 400*time.Millisecond).Outcome != OutcomeUnknown {
		t.Logf("kfStaleTerm: gave up at point 3")
		return false
	}
	sc := c.controller()
	if sc == nil {
		t.Logf("kfStaleTerm: gave up at point 4")
		return false
	}
	sc.NodeBecameUnavailable(c.nodes[a].server())
	var b string
	for deadline := time.Now().Add(10 * time.Second); time.Now().Before(deadline); {
		if l, ok := c.waitLeader(200 * time.Millisecond); ok && l != a {
			b = l
			break
		}
	}
	if b == "" {
		t.Logf("kfStaleTerm: gave up at point 5")
		return false
	}
	var cc string
	for _, n := range c.order[:3] {
		if n != a && n != b {
			cc = n
		}
	}
	// B, the leader of the next term, is cut off as well and takes a write it cannot replicate
	isolate(b)
	if put(3, b, "c", "kft2", 400*time.Millisecond).Outcome != OutcomeUnknown {
		t.Logf("kfStaleTerm: gave up at point 6")
		return false
	}
	// A comes back (B stays away): A holds the longest log among {A, C} and leads again; its old entry commits
	join(a, cc)
	sc.NodeBecameUnavailable(c.nodes[b].server())
	deadline := time.Now().Add(10 * time.Second)
	for {
		if l, ok := c.waitLeader(200 * time.Millisecond); ok && l == a {
			break
		}
		if time.Now().After(deadline) {
			t.Logf("kfStaleTerm: gave up at point 7")
			return false
		}
	}
	r1 := &ClientOp{ID: 4, Node: a, Tag: "kftr1", Read: &proto.GetRequest{Key: "b", IncludeValue: true}}
	deadline = time.Now().Add(5 * time.Second)
	for {
		c.doRead(r1, 2*time.Second)
		if r1.Outcome == OutcomeOK && r1.Get != nil && r1.Get.Status == proto.Status_OK {
			break
		}
		if time.Now().After(deadline) {
			t.Logf("kfStaleTerm: gave up at point 8")
			return false
		}
		time.Sleep(20 * time.Millisecond)
	}
	termA := sc.Term()
	// A has committed its entry at offset 1 (the read above was served from it) and C holds it; A stops, B comes back
	c.wire.mu.Lock()
	pos := c.wire.tagPos["kft1"]
	c.wire.mu.Unlock()
	deadline = time.Now().Add(5 * time.Second)
	for {
		if st, err := c.nodes[cc].status(); err == nil && st.HeadOffset >= 1 {
			break
		}
		if time.Now().After(deadline) {
			t.Logf("kfStaleTerm: gave up at point 9")
			return false
		}
		time.Sleep(10 * time.Millisecond)
	}
	c.hist.add(Event{Kind: "node.stop", From: a, To: a})
	c.nodes[a].stop()
	join(b, cc)
	sc.NodeBecameUnavailable(c.nodes[a].server())
	deadline = time.Now().Add(10 * time.Second)
	var nl string
	for {
		if l, ok := c.waitLeader(200 * time.Millisecond); ok && l != a {
			nl = l
			break
		}
		if time.Now().After(deadline) {
			t.Logf("kfStaleTerm: gave up at point 10")
			return false
		}
	}
	winners := staleTermWinners(c.hist.snapshot())
	if nl != b || len(winners) == 0 {
		return true // the coordinator did not choose the node with the stale entry: not reproduced in this run
	}
	scenario := fmt.Sprintf("ensemble {%s,%s,%s}: leader %s is cut off and takes a write it cannot replicate (entry of its term at offset 1); %s leads the next term, is cut off as well and takes a write it cannot replicate (entry of that term at offset 1); %s comes back, leads term %d with its old log, commits its entry at offset 1 with %s and serves it; %s stops, %s comes back and the coordinator elects: %s",
		a, b, cc, a, b, a, termA, cc, a, b, winners[0])
	switch prop {
	case "C02":
		r2 := &ClientOp{ID: 5, Node: nl, Tag: "kftr2", Read: &proto.GetRequest{Key: "b", IncludeValue: true}}
		c.doRead(r2, 3*time.Second)
		if r2.Outcome != OutcomeOK || r2.Get == nil {
			t.Logf("kfStaleTerm: gave up at point 11")
			return false
		}
		if r2.Get.Status == proto.Status_OK && string(r2.Get.Value) == "kft1" {
			return true
		}
		evid.KnownFinding("C02", fmt.Sprintf("%s: %s; a read of key 'b' at %s in term %d returned the value of that entry, the same read at the new leader %s answers %v: the first read observed data that was rolled back", sig, scenario, a, termA, nl, r2.Get.Status))
	case "C03":
		if pos == nil {
			t.Logf("kfStaleTerm: gave up at point 12")
			return false
		}
		put(6, nl, "d", "kft3", 3*time.Second)
		es, okLog := c.nodes[nl].walEntries()
		if !okLog {
			t.Logf("kfStaleTerm: gave up at point 13")
			return false
		}
		what := "nothing"
		for _, e := range es {
			if e.Offset == pos.Offset {
				if e.Term == pos.Term {
					return true
				}
				what = fmt.Sprintf("an entry of term %d %v", e.Term, entryTagsOf(e))
			}
		}
		evid.KnownFinding("C03", fmt.Sprintf("%s: %s; %s had acknowledged entry (term %d, offset %d) to %s, which had it below its commit offset, the log of the new leader %s holds %s at offset %d: replica logs diverge below a commit offset", sig, scenario, cc, pos.Term, pos.Offset, a, nl, what, pos.Offset))
	}
	return true
}
