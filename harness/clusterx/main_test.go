package clusterx

import (
	"fmt"
	"log/slog"
	"os"
	"runtime"
	"runtime/pprof"
	"testing"

	"verifharness/evid"
)

var tmpRoot string

func TestMain(m *testing.M) {
	slog.SetDefault(slog.New(slog.NewTextHandler(evid.WarnLog(), &slog.HandlerOptions{Level: slog.LevelWarn})))
	var err error
	base := os.Getenv("VERIF_TMP")
	if base == "" {
		base = os.TempDir()
	}
	tmpRoot, err = os.MkdirTemp(base, "clusterx-")
	if err != nil {
		panic(err)
	}
	installPanicHandler()
	code := m.Run()
	if os.Getenv("VERIF_DEBUG") != "" {
		var ms runtime.MemStats
		runtime.GC()
		runtime.ReadMemStats(&ms)
		fmt.Fprintf(os.Stderr, "VERIF_DEBUG goroutines=%d heapInuse=%dMB sys=%dMB\n", runtime.NumGoroutine(), ms.HeapInuse>>20, ms.Sys>>20)
		if os.Getenv("VERIF_DEBUG") == "2" {
			_ = pprof.Lookup("goroutine").WriteTo(os.Stderr, 1)
		}
	}
	evid.Flush()
	_ = os.RemoveAll(tmpRoot)
	os.Exit(code)
}
