//go:build verif

package clusterx

import (
	"fmt"
	"os"
	"path/filepath"
	"sort"
	"strings"
	"sync"
	"testing"
	"time"

	pb "google.golang.org/protobuf/proto"
	"pgregory.net/rapid"

	time2 "github.com/oxia-db/oxia/common/time"
	"github.com/oxia-db/oxia/coordinator/model"
	"github.com/oxia-db/oxia/proto"
	"github.com/oxia-db/oxia/server"
	"github.com/oxia-db/oxia/server/kv"

	"verifharness/evid"
	"verifharness/nodekit"
)

var opCounter int

type caseState struct {
	t             *rapid.T
	c             *Cluster
	steps         []string
	ops           []*ClientOp
	opsMu         sync.Mutex
	labels        map[string]bool
	keys          []string
	lastVer       map[string]int64 // client-side knowledge of versions (for conditional puts)
	spares        []string
	swapped       bool
	holds         []chan struct{}
	maxTerm       map[string]int64 // highest GetStatus term seen per node
	deletionsSeen map[string]int
	viol          []string
	nOps          int
}

func (s *caseState) logf(f string, a ...any) { s.steps = append(s.steps, fmt.Sprintf(f, a...)) }

func (s *caseState) violation(f string, a ...any) {
	s.viol = append(s.viol, fmt.Sprintf(f, a...))
}

func (s *caseState) newOp(node string) *ClientOp {
	s.opsMu.Lock()
	defer s.opsMu.Unlock()
	s.nOps++
	op := &ClientOp{ID: s.nOps, Node: node, Tag: fmt.Sprintf("op%d", s.nOps)}
	s.ops = append(s.ops, op)
	return op
}

// believedLeader: what a client would use -- usually the coordinator's current leader, sometimes a
// node it remembers from earlier (possibly deposed), sometimes any node.
func (s *caseState) believedLeader() string {
	t := s.t
	cur := ""
	if sc := s.c.controller(); sc != nil {
		if l := sc.Leader(); l != nil {
			cur = l.Internal
		}
	}
	switch rapid.IntRange(0, 5).Draw(t, "leaderChoice") {
	case 0:
		return s.c.order[rapid.IntRange(0, len(s.c.order)-1).Draw(t, "anyNode")]
	case 1:
		// a previously used node
		if len(s.ops) > 0 {
			return s.ops[rapid.IntRange(0, len(s.ops)-1).Draw(t, "oldOp")].Node
		}
	}
	if cur == "" {
		return s.c.order[rapid.IntRange(0, len(s.c.order)-1).Draw(t, "anyNode2")]
	}
	return cur
}

func (s *caseState) genWrite(node string) *ClientOp {
	t := s.t
	op := s.newOp(node)
	k := s.keys[rapid.IntRange(0, len(s.keys)-1).Draw(t, "key")]
	req := &proto.WriteRequest{}
	switch rapid.IntRange(0, 5).Draw(t, "writeKind") {
	case 0:
		req.Deletes = append(req.Deletes, &proto.DeleteRequest{Key: k})
	case 1:
		ev := s.lastVer[k]
		if rapid.Bool().Draw(t, "notExists") {
			ev = -1
		}
		req.Puts = append(req.Puts, &proto.PutRequest{Key: k, Value: []byte(op.Tag), ExpectedVersionId: &ev})
	case 2:
		req.DeleteRanges = append(req.DeleteRanges, &proto.DeleteRangeRequest{StartInclusive: "k0", EndExclusive: "k9"})
	default:
		req.Puts = append(req.Puts, &proto.PutRequest{Key: k, Value: []byte(op.Tag)})
	}
	// marker record: identifies the request in the log and in the final state
	req.Puts = append(req.Puts, &proto.PutRequest{Key: "m/" + op.Tag, Value: []byte(op.Tag)})
	op.Write = req
	return op
}

func (s *caseState) runOps(ops []*ClientOp) {
	var wg sync.WaitGroup
	for _, op := range ops {
		wg.Add(1)
		go func(op *ClientOp) {
			defer wg.Done()
			// the term the node is known to have accepted (highest NewTerm it answered): taken from the harness's own
			// record, not from the controller, whose lock may be held for the whole quorum wait of a BecomeLeader
			op.NodeTerm = s.c.nodes[op.Node].answeredTerm()
			switch {
			case op.Write != nil:
				s.c.doWrite(op, 1500*time.Millisecond)
			case op.List != nil:
				s.c.doList(op, 1500*time.Millisecond)
			default:
				s.c.doRead(op, 1500*time.Millisecond)
			}
		}(op)
	}
	wg.Wait()
	for _, op := range ops {
		if op.Write != nil && op.Outcome == OutcomeOK && op.Resp != nil {
			for i, p := range op.Write.Puts {
				if i < len(op.Resp.Puts) && op.Resp.Puts[i].Status == proto.Status_OK && op.Resp.Puts[i].Version != nil && !strings.HasPrefix(p.Key, "m/") {
					s.lastVer[p.Key] = op.Resp.Puts[i].Version.VersionId
				}
			}
		}
		s.logf("%s@%s:%s", op.Tag, op.Node, op.Outcome)
	}
}

func (s *caseState) pollStatuses() {
	for _, name := range s.c.order {
		n := s.c.nodes[name]
		if !n.isUp() {
			continue
		}
		st, err := n.status()
		if err != nil || st == nil {
			continue
		}
		if d := n.deletionCount(); d != s.deletionsSeen[name] {
			// the replica was deleted on the coordinator's order since the last poll: the node knows nothing of the
			// shard any more, and a late request of an old election may re-create it with a lower term
			s.deletionsSeen[name] = d
			delete(s.maxTerm, name)
		}
		if prev, ok := s.maxTerm[name]; ok && st.Term < prev && st.Term >= 0 {
			s.violation("C05: node %s reported term %d after having reported term %d (terms never decrease, also across restarts)", name, st.Term, prev)
		}
		if st.Term > s.maxTerm[name] || s.maxTerm[name] == 0 {
			if st.Term > s.maxTerm[name] {
				s.maxTerm[name] = st.Term
			}
		}
	}
}

func runProgram(t *rapid.T, focus string) {
	takePanics() // leftovers of goroutines of the previous case
	dir, err := os.MkdirTemp(tmpRoot, "cl-")
	if err != nil {
		t.Fatalf("mkdtemp: %v", err)
	}
	defer evid.RetireDir(dir)
	rf := 3
	if rapid.IntRange(0, 5).Draw(t, "rf5") == 0 {
		rf = 5
	}
	nSpare := rapid.IntRange(0, 1).Draw(t, "spare")
	seg := rapid.SampledFrom([]int32{1024, 4096, 64 * 1024}).Draw(t, "segSize")
	c, err := newCluster(dir, rf+nSpare, rf, seg)
	if err != nil {
		t.Fatalf("cluster: %v", err)
	}
	closed := false
	defer func() {
		if !closed {
			c.close()
		}
	}()
	s := &caseState{t: t, c: c, labels: map[string]bool{}, keys: []string{"k1", "k2", "k3"}, lastVer: map[string]int64{}, maxTerm: map[string]int64{}, deletionsSeen: map[string]int{}}
	for _, n := range c.order[rf:] {
		s.spares = append(s.spares, n)
	}
	s.logf("cluster rf=%d spare=%d seg=%d", rf, nSpare, seg)
	if _, ok := c.waitLeader(10 * time.Second); !ok {
		t.Skip("inconclusive: no initial leader within the bound")
	}
	ensemble := func() []string {
		sm := c.statusRs.Load().Namespaces[nsName].Shards[shardID]
		var out []string
		for _, sv := range sm.Ensemble {
			out = append(out, sv.Internal)
		}
		return out
	}
	nSteps := rapid.IntRange(8, 30).Draw(t, "nSteps")
	okWriteSeen := false
	for i := 0; i < nSteps; i++ {
		switch rapid.SampledFrom([]string{"write", "write", "write", "burst", "read", "read", "isolate", "heal", "cut", "restart", "stop", "start",
			"unavailable", "unavailable", "coordRestart", "holdNewTerm", "release", "swap", "settle", "settle", "lateDelivery", "electionWithReads", "electionWithReads"}).Draw(t, "step") {
		case "lateDelivery":
			nSent := c.wire.sentCount()
			if nSent == 0 {
				continue
			}
			res := c.wire.deliverLate(rapid.IntRange(0, nSent-1).Draw(t, "lateMsg"))
			s.logf("%s", res)
			if strings.Contains(res, "accepted") {
				s.labels["late_message_accepted"] = true
			}
			s.labels["late_message"] = true
		case "write":
			op := s.genWrite(s.believedLeader())
			s.runOps([]*ClientOp{op})
			okWriteSeen = okWriteSeen || op.Outcome == OutcomeOK
		case "burst":
			n := rapid.IntRange(2, 4).Draw(t, "burstN")
			var ops []*ClientOp
			for j := 0; j < n; j++ {
				if rapid.IntRange(0, 2).Draw(t, "burstRead") == 0 {
					op := s.newOp(s.believedLeader())
					op.Read = &proto.GetRequest{Key: s.keys[rapid.IntRange(0, len(s.keys)-1).Draw(t, "rkey")], IncludeValue: true}
					ops = append(ops, op)
				} else {
					ops = append(ops, s.genWrite(s.believedLeader()))
				}
			}
			s.runOps(ops)
			s.labels["concurrent_ops"] = true
		case "read":
			op := s.newOp(s.believedLeader())
			if rapid.IntRange(0, 2).Draw(t, "listInstead") == 0 {
				// the user keys only: k1..k3 (the marker records m/... sort elsewhere)
				op.List = &proto.ListRequest{Shard: &shardIDv, StartInclusive: "k0", EndExclusive: "k9"}
				s.labels["list_read"] = true
			} else {
				op.Read = &proto.GetRequest{Key: s.keys[rapid.IntRange(0, len(s.keys)-1).Draw(t, "rkey")], IncludeValue: true}
			}
			s.runOps([]*ClientOp{op})
		case "isolate":
			n := c.order[rapid.IntRange(0, len(c.order)-1).Draw(t, "node")]
			s.logf("isolate(%s)", n)
			for _, o := range c.order {
				if o != n {
					c.wire.setLink(n, o, false)
				}
			}
			if rapid.Bool().Draw(t, "alsoCoord") {
				c.wire.setLink(coordName, n, false)
			}
			s.labels["partition"] = true
		case "heal":
			s.logf("heal")
			for _, a := range append([]string{coordName}, c.order...) {
				for _, b := range c.order {
					if a != b {
						c.wire.setLink(a, b, true)
					}
				}
			}
		case "cut":
			a := c.order[rapid.IntRange(0, len(c.order)-1).Draw(t, "a")]
			b := append([]string{coordName}, c.order...)[rapid.IntRange(0, len(c.order)).Draw(t, "b")]
			if a != b {
				s.logf("cut(%s,%s)", a, b)
				c.wire.setLink(a, b, false)
				s.labels["partition"] = true
			}
		case "restart":
			n := c.order[rapid.IntRange(0, len(c.order)-1).Draw(t, "node")]
			if c.nodes[n].isUp() {
				s.logf("restart(%s)", n)
				c.hist.add(Event{Kind: "node.restart", From: n, To: n})
				c.nodes[n].stop()
				if err := c.nodes[n].start(); err != nil {
					t.Fatalf("%s: node %s cannot restart: %v; steps=%v", focus, n, err, s.steps)
				}
				s.labels["restart"] = true
			}
		case "stop":
			n := c.order[rapid.IntRange(0, len(c.order)-1).Draw(t, "node")]
			down := 0
			for _, o := range c.order {
				if !c.nodes[o].isUp() {
					down++
				}
			}
			if c.nodes[n].isUp() && down < (rf-1)/2 {
				s.logf("stop(%s)", n)
				c.hist.add(Event{Kind: "node.stop", From: n, To: n})
				c.nodes[n].stop()
				s.labels["restart"] = true
			}
		case "start":
			for _, n := range c.order {
				if !c.nodes[n].isUp() {
					s.logf("start(%s)", n)
					c.hist.add(Event{Kind: "node.start", From: n, To: n})
					if err := c.nodes[n].start(); err != nil {
						t.Fatalf("%s: node %s cannot start: %v; steps=%v", focus, n, err, s.steps)
					}
					break
				}
			}
		case "unavailable":
			if sc := c.controller(); sc != nil {
				var n string
				if l := sc.Leader(); l != nil && rapid.IntRange(0, 3).Draw(t, "leaderUnavail") > 0 {
					n = l.Internal
				} else {
					n = c.order[rapid.IntRange(0, len(c.order)-1).Draw(t, "node")]
				}
				s.logf("nodeUnavailable(%s)", n)
				sc.NodeBecameUnavailable(c.nodes[n].server())
				s.labels["election_triggered"] = true
				time.Sleep(time.Duration(rapid.IntRange(0, 30).Draw(t, "afterUnavailMs")) * time.Millisecond)
			}
		case "electionWithReads":
			// an acknowledged write that changes which keys exist, then the leader is cut off and declared unavailable
			// while the remaining members cannot reach each other (the new leader's BecomeLeader waits for its quorum):
			// during the election every member is asked to list and read. A member must refuse until it really leads.
			sc := c.controller()
			if sc == nil {
				continue
			}
			l := sc.Leader()
			if l == nil {
				continue
			}
			// the write flips the presence of one user key, so that a list from a database that has not applied it yet
			// differs from every admissible answer
			w := s.newOp(l.Internal)
			k := s.keys[rapid.IntRange(0, len(s.keys)-1).Draw(t, "flipKey")]
			probe := s.newOp(l.Internal)
			probe.Read = &proto.GetRequest{Key: k, IncludeValue: true}
			s.runOps([]*ClientOp{probe})
			if probe.Outcome == OutcomeOK && probe.Get != nil && probe.Get.Status == proto.Status_OK {
				w.Write = &proto.WriteRequest{Deletes: []*proto.DeleteRequest{{Key: k}}}
			} else {
				w.Write = &proto.WriteRequest{Puts: []*proto.PutRequest{{Key: k, Value: []byte(w.Tag)}}}
			}
			w.Write.Puts = append(w.Write.Puts, &proto.PutRequest{Key: "m/" + w.Tag, Value: []byte(w.Tag)})
			s.runOps([]*ClientOp{w})
			okWriteSeen = okWriteSeen || w.Outcome == OutcomeOK
			ens := ensemble()
			s.logf("electionWithReads(leader %s)", l.Internal)
			for _, a := range ens {
				for _, b := range ens {
					if a != b {
						c.wire.setLink(a, b, false)
					}
				}
			}
			c.wire.setLink(coordName, l.Internal, false)
			c.wire.setLink(l.Internal, coordName, false)
			sc.NodeBecameUnavailable(c.nodes[l.Internal].server())
			s.labels["election_triggered"] = true
			s.labels["reads_during_election"] = true
			rounds := rapid.IntRange(3, 10).Draw(t, "readRounds")
			for r := 0; r < rounds; r++ {
				var ops []*ClientOp
				for _, n := range ens {
					if n == l.Internal {
						continue
					}
					op := s.newOp(n)
					if r%2 == 0 {
						op.List = &proto.ListRequest{Shard: &shardIDv, StartInclusive: "k0", EndExclusive: "k9"}
					} else {
						op.Read = &proto.GetRequest{Key: s.keys[rapid.IntRange(0, len(s.keys)-1).Draw(t, "rkey")], IncludeValue: true}
					}
					ops = append(ops, op)
				}
				s.runOps(ops)
				for _, op := range ops {
					if op.Outcome == OutcomeOK {
						s.labels["read_answered_during_election"] = true
					}
				}
				time.Sleep(time.Duration(rapid.IntRange(5, 60).Draw(t, "betweenReadsMs")) * time.Millisecond)
				if r == rounds/2 {
					// let the election complete half way through
					for _, a := range ens {
						for _, b := range ens {
							if a != b && a != l.Internal && b != l.Internal {
								c.wire.setLink(a, b, true)
							}
						}
					}
				}
			}
			s.labels["partition"] = true
		case "coordRestart":
			s.logf("coordinatorRestart")
			c.stopCoordinator()
			c.startCoordinator()
			s.labels["coordinator_restart"] = true
			time.Sleep(time.Duration(rapid.IntRange(0, 30).Draw(t, "afterCoordMs")) * time.Millisecond)
		case "holdNewTerm":
			n := c.order[rapid.IntRange(0, len(c.order)-1).Draw(t, "node")]
			ch := make(chan struct{})
			c.wire.mu.Lock()
			if _, exists := c.wire.newTermHold[n]; !exists {
				c.wire.newTermHold[n] = ch
				s.holds = append(s.holds, ch)
				s.logf("holdNextNewTermResponse(%s)", n)
				s.labels["newterm_response_held"] = true
			}
			c.wire.mu.Unlock()
		case "release":
			for _, ch := range s.holds {
				close(ch)
			}
			s.holds = nil
			s.logf("releaseHeldResponses")
		case "swap":
			if len(s.spares) == 0 || s.swapped {
				continue
			}
			sc := c.controller()
			if sc == nil {
				continue
			}
			ens := ensemble()
			from := ens[rapid.IntRange(0, len(ens)-1).Draw(t, "swapFrom")]
			to := s.spares[0]
			if swapFindingKnown() {
				// excluded by construction while the finding is listed: swap only while the coordinator can reach every
				// member of the old ensemble and every node is up
				ok := true
				for _, e := range ens {
					if !c.nodes[e].isUp() || !c.wire.isUp(coordName, e) {
						ok = false
					}
					for _, o := range ens {
						if e != o && !c.wire.isUp(e, o) {
							ok = false
						}
					}
				}
				c.wire.mu.Lock()
				if len(c.wire.newTermHold) > 0 {
					ok = false
				}
				c.wire.mu.Unlock()
				if !ok {
					evid.Excluded(focus, "swap-elects-node-behind-a-fenced-removed-node")
					continue
				}
			}
			s.swapped = true
			s.logf("swap(%s->%s)", from, to)
			s.labels["swap"] = true
			done := make(chan error, 1)
			go func() { done <- sc.SwapNode(c.nodes[from].server(), c.nodes[to].server()) }()
			select {
			case err := <-done:
				s.logf("swap result: %v", err)
			case <-time.After(time.Duration(rapid.IntRange(5, 400).Draw(t, "swapWaitMs")) * time.Millisecond):
				s.logf("swap still running")
			}
		case "settle":
			time.Sleep(time.Duration(rapid.IntRange(1, 40).Draw(t, "settleMs")) * time.Millisecond)
		}
		c.checkFenced(fmt.Sprintf("after step %d", i))
		s.pollStatuses()
		if ps := takePanics(); len(ps) > 0 {
			evid.Case(focus, false, strings.Join(s.steps, "; ")+" PANIC "+ps[0], "inconclusive_node_goroutine_panicked")
			evid.Note(focus, "node_goroutine_panic", ps[0])
			t.Skip("inconclusive: " + ps[0])
		}
	}

	// ---- end of case: heal, restart everything, let the real coordinator elect, collect ---------------------------
	for _, ch := range s.holds {
		close(ch)
	}
	for _, a := range append([]string{coordName}, c.order...) {
		for _, b := range c.order {
			if a != b {
				c.wire.setLink(a, b, true)
			}
		}
	}
	c.checkFenced("before recovery")
	for _, n := range c.order {
		if !c.nodes[n].isUp() {
			if err := c.nodes[n].start(); err != nil {
				t.Fatalf("%s: node %s cannot start at the end: %v; steps=%v", focus, n, err, s.steps)
			}
		}
	}
	c.stopCoordinator()
	c.startCoordinator()
	// wait for a leader that stays the leader: the restarted coordinator first verifies what it loaded and may
	// start another election
	var leader string
	ok := false
	stableDeadline := time.Now().Add(20 * time.Second)
	for time.Now().Before(stableDeadline) {
		l, found := c.waitLeader(15 * time.Second)
		if !found {
			break
		}
		mark := c.hist.lastSeq()
		time.Sleep(120 * time.Millisecond)
		quiet := true
		for _, e := range c.hist.snapshot() {
			if e.Seq > mark && (e.Kind == "meta.store" || e.Kind == "newterm.send" || e.Kind == "becomeleader.send") {
				quiet = false
			}
		}
		if l2, found2 := c.waitLeader(time.Second); quiet && found2 && l2 == l {
			leader, ok = l, true
			break
		}
	}
	if !ok {
		evid.Case(focus, false, strings.Join(s.steps, "; "), "inconclusive_no_final_leader")
		t.Skip("inconclusive: no stable leader at the end within the bound")
	}
	// a final write through the elected leader proves it serves, and pushes the commit offset to the followers
	final := s.genWrite(leader)
	s.runOps([]*ClientOp{final})
	// wait for the ensemble to catch up (failed followers are re-fenced with a 1 s backoff)
	ens := ensemble()
	deadline := time.Now().Add(6 * time.Second)
	for time.Now().Before(deadline) {
		ls, err := c.nodes[leader].status()
		if err != nil {
			break
		}
		all := true
		for _, e := range ens {
			st, err := c.nodes[e].status()
			if err != nil || st.HeadOffset < ls.HeadOffset || st.Term != ls.Term {
				all = false
			}
		}
		if all {
			break
		}
		time.Sleep(10 * time.Millisecond)
	}
	s.pollStatuses()
	c.checkFenced("end")
	if ps := takePanics(); len(ps) > 0 {
		evid.Case(focus, false, strings.Join(s.steps, "; ")+" PANIC "+ps[0], "inconclusive_node_goroutine_panicked")
		evid.Note(focus, "node_goroutine_panic", ps[0])
		t.Skip("inconclusive: " + ps[0])
	}
	s.evaluate(leader, ens, focus)
	closed = true
	c.close()

	// report
	if hb := c.wire.reportedHeadsBelowCommit(); len(hb) > 0 {
		if snapHeadKnown() {
			// the root cause of a listed finding occurred in this history: whatever follows from it is not counted
			// again (the scripted TestKF_* re-confirm it on every run); the case is counted as excluded
			evid.Excluded(focus, kfSnapHead)
			evid.Case(focus, false, strings.Join(s.steps, "; ")+" EXCLUDED "+hb[0], "excluded_by_known_finding")
			return
		}
		s.violation("C04: %s (the node does not report its true head)", hb[0])
	}
	var mine []string
	for _, v := range append(append([]string{}, c.wire.violations...), s.viol...) {
		if strings.HasPrefix(v, focus+":") {
			mine = append(mine, v)
		}
	}
	if len(mine) > 0 && staleTermKnown(focus) {
		if w := staleTermWinners(c.hist.snapshot()); len(w) > 0 {
			// the root cause of a listed finding occurred in this history (see kf_staleterm_test.go): what follows
			// from it is not counted again; the case is counted as excluded
			evid.Excluded(focus, kfStaleTerm)
			evid.Case(focus, false, strings.Join(s.steps, "; ")+" EXCLUDED "+w[0], "excluded_by_known_finding")
			return
		}
	}
	if len(mine) > 0 {
		var ev []string
		for _, e := range c.hist.snapshot() {
			if e.Kind != "append" && e.Kind != "ack" {
				ev = append(ev, e.String())
			}
		}
		if len(ev) > 400 {
			ev = ev[len(ev)-400:]
		}
		t.Fatalf("%s\nsteps=%v\nhistory (without append/ack):\n%s", strings.Join(mine, "\n"), s.steps, strings.Join(ev, "\n"))
	}
	var labels []string
	for l := range s.labels {
		labels = append(labels, l)
	}
	sort.Strings(labels)
	nontrivial := okWriteSeen && (s.labels["election_triggered"] || s.labels["restart"] || s.labels["swap"] || s.labels["coordinator_restart"] || s.labels["partition"])
	if focus == "C02" {
		nontrivial = nontrivial && s.labels["concurrent_ops"]
	}
	evid.Case(focus, nontrivial, strings.Join(s.steps, "; "), labels...)
}

const kfSwapBehind = "C01:swap-elects-node-behind-a-fenced-removed-node"

// The same root cause is listed once per property it breaks: the lost write is also a read that observed data
// which was later rolled back (C02) and a log that differs from an acknowledged entry at its offset (C03).
const kfSwapBehindC02 = "C02:swap-elects-node-behind-a-fenced-removed-node"
const kfSwapBehindC03 = "C03:swap-elects-node-behind-a-fenced-removed-node"

// A node that has installed a snapshot reports the head of its emptied log to NewTerm, not the offset its database
// is at. Listed once per property whose oracle it trips.
const kfSnapHead = "snapshot-installed-node-reports-empty-log-head"

func snapHeadKnown() bool {
	return evid.Known("C01:"+kfSnapHead) || evid.Known("C02:"+kfSnapHead) || evid.Known("C03:"+kfSnapHead) || evid.Known("C04:"+kfSnapHead)
}

func swapFindingKnown() bool {
	return evid.Known(kfSwapBehind) || evid.Known(kfSwapBehindC02) || evid.Known(kfSwapBehindC03)
}

// ---- oracles over the recorded history ----------------------------------------------------------------------------------

type logPos struct {
	offset int64
	term   int64
}

func entryTags(e *proto.LogEntry) []string {
	lev := &proto.LogEntryValue{}
	if err := lev.UnmarshalVT(e.Value); err != nil {
		return nil
	}
	var tags []string
	for _, w := range lev.GetRequests().Writes {
		for _, p := range w.Puts {
			if strings.HasPrefix(p.Key, "m/") {
				tags = append(tags, strings.TrimPrefix(p.Key, "m/"))
			}
		}
	}
	return tags
}

func comparableDump(d []nodekit.RawKV) []string {
	var out []string
	for _, e := range d {
		if e.Key == "__oxia/term" || e.Key == "__oxia/term-options" {
			continue
		}
		if strings.HasPrefix(e.Key, "__oxia/notifications/") {
			nb := &proto.NotificationBatch{}
			if err := nb.UnmarshalVT(e.Value); err == nil {
				var ks []string
				for k, n := range nb.Notifications {
					ks = append(ks, fmt.Sprintf("%q:%v", k, n))
				}
				sort.Strings(ks)
				out = append(out, fmt.Sprintf("%s => off=%d ts=%d %v", e.Key, nb.Offset, nb.Timestamp, ks))
				continue
			}
		}
		out = append(out, e.Key+" => "+string(e.Value))
	}
	return out
}

func diffStrings(a, b []string) string {
	for i := 0; i < len(a) && i < len(b); i++ {
		if a[i] != b[i] {
			return fmt.Sprintf("record %d: %q vs %q", i, a[i], b[i])
		}
	}
	if len(a) != len(b) {
		return fmt.Sprintf("%d vs %d records", len(a), len(b))
	}
	return ""
}

func (s *caseState) evaluate(leader string, ens []string, focus string) {
	c := s.c
	events := c.hist.snapshot()
	// ---- logs
	logs := map[string][]*proto.LogEntry{}
	commits := map[string]int64{}
	for _, name := range c.order {
		n := c.nodes[name]
		if !n.isUp() || n.deleted {
			continue
		}
		if es, ok := n.walEntries(); ok {
			logs[name] = es
		}
		if st, err := n.status(); err == nil {
			commits[name] = st.CommitOffset
		}
	}
	llog, haveLeaderLog := logs[leader]
	if !haveLeaderLog {
		s.labels["inconclusive_leader_log_unreadable"] = true
		return
	}
	pos := map[string]logPos{} // tag -> position in the final leader's log
	dupTag := ""
	for _, e := range llog {
		for _, tag := range entryTags(e) {
			if _, dup := pos[tag]; dup {
				dupTag = tag
			}
			pos[tag] = logPos{e.Offset, e.Term}
		}
	}
	// contiguity of the final leader's log
	for i := 1; i < len(llog); i++ {
		if llog[i].Offset != llog[i-1].Offset+1 {
			s.violation("C03: final leader %s log is not contiguous: offset %d follows %d", leader, llog[i].Offset, llog[i-1].Offset)
		}
		if llog[i].Term < llog[i-1].Term {
			s.violation("C03: final leader %s log has decreasing terms at offset %d", leader, llog[i].Offset)
		}
	}
	if dupTag != "" {
		s.violation("C02: request %s appears more than once in the final leader's log (applied twice)", dupTag)
	}
	firstOffset := int64(0)
	if len(llog) > 0 {
		firstOffset = llog[0].Offset
	}
	// ---- C01 / C02: every acknowledged write is in the final log exactly once; refused ones are not
	for _, op := range s.ops {
		if op.Write == nil {
			continue
		}
		p, found := pos[op.Tag]
		switch op.Outcome {
		case OutcomeOK:
			if !found && firstOffset == 0 {
				sig := ""
				if s.matchesSwapSignature(events, op) {
					sig = " [matches listed finding " + kfSwapBehind + "]"
					if evid.Known(kfSwapBehind) {
						continue
					}
				}
				s.violation("C01: write %s was acknowledged by %s but is missing from the log of the final leader %s%s", op.Tag, op.Node, leader, sig)
			}
		case OutcomeNotApplied:
			if found {
				s.violation("C02: write %s was refused by %s (%s) before reaching its log, yet it is in the final leader's log at offset %d", op.Tag, op.Node, op.Err, p.offset)
			}
		}
	}
	// ---- reference fold of the final leader's log (from offset 0) into a fresh database
	if firstOffset == 0 && len(llog) > 0 {
		refDir := filepath.Join(c.dir, "ref")
		f, err := kv.NewPebbleKVFactory(&kv.FactoryOptions{DataDir: refDir, CacheSizeMB: 1})
		if err == nil {
			kf := &nodekit.KVFactory{Factory: f}
			db, err := kv.NewDB(nsName, shardID, kf, time.Hour, time2.SystemClock)
			if err == nil {
				respAt := map[int64]*proto.WriteResponse{}
				keyState := map[string][]keyVersion{} // per key: state after each log position
				for _, e := range llog {
					lev := &proto.LogEntryValue{}
					if err := lev.UnmarshalVT(e.Value); err != nil {
						continue
					}
					for _, w := range lev.GetRequests().Writes {
						r, err := db.ProcessWrite(w, e.Offset, e.Timestamp, server.WrapperUpdateOperationCallback)
						if err == nil {
							respAt[e.Offset] = r
						}
					}
					for _, k := range s.keys {
						g, err := db.Get(&proto.GetRequest{Key: k, IncludeValue: true})
						kvn := keyVersion{pos: e.Offset}
						if err == nil && g.Status == proto.Status_OK {
							kvn.found, kvn.version, kvn.value = true, g.Version.VersionId, string(g.Value)
						}
						keyState[k] = append(keyState[k], kvn)
					}
				}
				// final state of the leader == fold of its log
				if ln := c.nodes[leader]; ln.isUp() {
					if d, err := nodekit.Dump(ln.kvF.Last()); err == nil {
						if rd, err := nodekit.Dump(kf.Last()); err == nil {
							lc := commits[leader]
							if lc == llog[len(llog)-1].Offset {
								if diff := diffStrings(comparableDump(d), comparableDump(rd)); diff != "" {
									s.violation("C01: the final leader's database differs from applying its own log in order to an empty database: %s", diff)
								}
							}
						}
					}
				}
				// responses: what each client got == what the log position yields
				for _, op := range s.ops {
					if op.Write == nil || op.Outcome != OutcomeOK || op.Resp == nil {
						continue
					}
					if p, ok := pos[op.Tag]; ok {
						if want := respAt[p.offset]; want != nil && !pb.Equal(want, op.Resp) {
							s.violation("C02: write %s got response %v but its position %d in the committed log yields %v", op.Tag, op.Resp, p.offset, want)
						}
					}
				}
				s.checkRealTimeAndReads(events, pos, keyState, llog)
				_ = db.Close()
			}
		}
	}
	// ---- C03: pairwise log agreement at or below the commit offset both replicas have reached; equal databases at
	// equal commit offset. (A replica that has not been re-attached by the current leader yet - its commit offset is
	// still the old one - may hold an uncommitted tail of a deposed leader above its own commit offset; the leader
	// truncates it when it attaches the replica, and from then on its commit offset follows the leader's.)
	names := sortedKeys(logs)
	// attached: the final leader, and every node that has acknowledged an entry to it since the node last (re)started
	attached := map[string]bool{leader: true}
	finalTerm := int64(-1)
	for _, e := range events {
		if e.Kind == "becomeleader.ok" && e.From == leader && e.Term > finalTerm {
			finalTerm = e.Term
		}
	}
	for _, e := range events {
		switch e.Kind {
		case "node.stop", "node.start", "node.restart":
			delete(attached, e.From)
			if e.From == leader {
				attached[leader] = true
			}
		case "ack":
			if e.Term == finalTerm && e.To == leader {
				attached[e.From] = true
			}
		}
	}
	for i := 0; i < len(names); i++ {
		for j := i + 1; j < len(names); j++ {
			a, b := names[i], names[j]
			ca, cb := commits[a], commits[b]
			maxc := ca
			if cb < maxc {
				maxc = cb
			}
			if attached[a] && attached[b] {
				// both follow (or are) the final leader: whatever either of them has committed binds the other
				maxc = ca
				if cb > maxc {
					maxc = cb
				}
			}
			bm := map[int64]*proto.LogEntry{}
			for _, e := range logs[b] {
				bm[e.Offset] = e
			}
			for _, e := range logs[a] {
				if o, ok := bm[e.Offset]; ok && e.Offset <= maxc {
					if o.Term != e.Term || string(o.Value) != string(e.Value) {
						s.violation("C03: replicas %s and %s disagree on the entry at offset %d (terms %d / %d) although the commit offsets are %d / %d",
							a, b, e.Offset, e.Term, o.Term, ca, cb)
						break
					}
				}
			}
			if ca == cb && ca >= 0 && c.nodes[a].isUp() && c.nodes[b].isUp() {
				da, err1 := nodekit.Dump(c.nodes[a].kvF.Last())
				db2, err2 := nodekit.Dump(c.nodes[b].kvF.Last())
				if err1 == nil && err2 == nil {
					// re-check the commit offsets did not move while dumping
					sa, e1 := c.nodes[a].status()
					sb, e2 := c.nodes[b].status()
					if e1 == nil && e2 == nil && sa.CommitOffset == ca && sb.CommitOffset == cb {
						if diff := diffStrings(comparableDump(da), comparableDump(db2)); diff != "" {
							s.violation("C03: replicas %s and %s have both applied the log up to offset %d but their databases differ: %s", a, b, ca, diff)
						}
					}
				}
			}
		}
	}
	s.checkFencingHistory(events, logs)
	s.checkElectionSafety(events)
}

type keyVersion struct {
	pos     int64
	found   bool
	version int64
	value   string
}

// checkRealTimeAndReads: C02.
func (s *caseState) checkRealTimeAndReads(events []Event, pos map[string]logPos, keyState map[string][]keyVersion, llog []*proto.LogEntry) {
	// real-time order between writes
	var ws []*ClientOp
	for _, op := range s.ops {
		if op.Write != nil && op.RetSeq > 0 {
			if _, ok := pos[op.Tag]; ok {
				ws = append(ws, op)
			}
		}
	}
	for _, a := range ws {
		if a.Outcome != OutcomeOK {
			continue
		}
		for _, b := range ws {
			if a != b && a.RetSeq < b.InvSeq && pos[a.Tag].offset > pos[b.Tag].offset {
				s.violation("C02: write %s completed before write %s was invoked, but sits after it in the committed log (%d > %d)", a.Tag, b.Tag, pos[a.Tag].offset, pos[b.Tag].offset)
			}
		}
	}
	// highest term stored by the coordinator before each history position
	type termAt struct {
		seq  int64
		term int64
	}
	var stored []termAt
	for _, e := range events {
		if e.Kind == "meta.store" {
			stored = append(stored, termAt{e.Seq, e.Term})
		}
	}
	maxStoredBefore := func(seq int64) int64 {
		m := int64(-1)
		for _, st := range stored {
			if st.seq < seq && st.term > m {
				m = st.term
			}
		}
		return m
	}
	for _, op := range s.ops {
		if op.Read == nil || op.Outcome != OutcomeOK || op.Get == nil {
			continue
		}
		states := keyState[op.Read.Key]
		found := op.Get.Status == proto.Status_OK
		var ver int64
		var val string
		if found {
			ver, val = op.Get.Version.VersionId, string(op.Get.Value)
		} else if op.Get.Status != proto.Status_KEY_NOT_FOUND {
			continue
		}
		// bounds
		lower, upper := int64(-1), int64(-1)
		staleEligible := maxStoredBefore(op.InvSeq) > op.NodeTerm
		for _, w := range ws {
			p := pos[w.Tag].offset
			if !staleEligible && w.Outcome == OutcomeOK && w.RetSeq < op.InvSeq && p > lower {
				lower = p
			}
		}
		for _, w := range s.ops {
			if w.Write == nil {
				continue
			}
			if p, ok := pos[w.Tag]; ok && w.InvSeq < op.RetSeq && p.offset > upper {
				upper = p.offset
			}
		}
		match := false
		anyPrefix := false
		// prefix -1 (empty database)
		if !found {
			anyPrefix = true
			if lower <= -1 {
				match = true
			}
		}
		for _, st := range states {
			if st.found == found && (!found || (st.version == ver && st.value == val)) {
				anyPrefix = true
				if st.pos >= lower && st.pos <= upper {
					match = true
				}
				// a state persists until the next change: positions between are equal too (states has one entry per position)
			}
		}
		desc := fmt.Sprintf("read %s of %q at %s (node term %d) returned found=%v version=%d value=%q", op.Tag, op.Read.Key, op.Node, op.NodeTerm, found, ver, val)
		if !anyPrefix {
			s.violation("C02: %s, which matches no prefix of the committed log (uncommitted or rolled-back data)", desc)
		} else if !match {
			s.violation("C02: %s, which is not the state after any committed prefix in [%d,%d] (stale-eligible=%v)", desc, lower, upper, staleEligible)
		}
	}
	// lists over the user keys: the set returned must be the set of present keys after some committed prefix within
	// the same bounds as a get
	for _, op := range s.ops {
		if op.List == nil || op.Outcome != OutcomeOK {
			continue
		}
		lower, upper := int64(-1), int64(-1)
		staleEligible := maxStoredBefore(op.InvSeq) > op.NodeTerm
		for _, w := range ws {
			p := pos[w.Tag].offset
			if !staleEligible && w.Outcome == OutcomeOK && w.RetSeq < op.InvSeq && p > lower {
				lower = p
			}
		}
		for _, w := range s.ops {
			if w.Write == nil {
				continue
			}
			if p, ok := pos[w.Tag]; ok && w.InvSeq < op.RetSeq && p.offset > upper {
				upper = p.offset
			}
		}
		got := map[string]bool{}
		for _, k := range op.ListKeys {
			got[k] = true
		}
		presentAt := func(p int64) map[string]bool {
			m := map[string]bool{}
			for _, k := range s.keys {
				for _, st := range keyState[k] {
					if st.pos == p && st.found {
						m[k] = true
					}
				}
			}
			return m
		}
		same := func(a, b map[string]bool) bool {
			if len(a) != len(b) {
				return false
			}
			for k := range a {
				if !b[k] {
					return false
				}
			}
			return true
		}
		match, anyPrefix := false, false
		if len(got) == 0 {
			anyPrefix = true
			if lower <= -1 {
				match = true
			}
		}
		for _, e := range llog {
			if same(got, presentAt(e.Offset)) {
				anyPrefix = true
				if e.Offset >= lower && e.Offset <= upper {
					match = true
				}
			}
		}
		desc := fmt.Sprintf("list %s at %s (node term %d) returned %v", op.Tag, op.Node, op.NodeTerm, op.ListKeys)
		if !anyPrefix {
			s.violation("C02: %s, which is the key set after no prefix of the committed log", desc)
		} else if !match {
			s.violation("C02: %s, which is not the key set after any committed prefix in [%d,%d] (stale-eligible=%v)", desc, lower, upper, staleEligible)
		}
	}
}

// checkFencingHistory: C04 clauses over the recorded history.
func (s *caseState) checkFencingHistory(events []Event, logs map[string][]*proto.LogEntry) {
	type fence struct {
		seq        int64
		term       int64
		headOffset int64
	}
	fences := map[string][]fence{}
	for _, e := range events {
		if e.Kind == "deleteshard" && e.Err == "" {
			// the replica was removed from this node on the coordinator's order: the node keeps nothing of the shard, and
			// a request of an older term that arrives afterwards finds a node that has never seen it (the same reading as
			// for C05; thorough tier, C04, rapid seed 217378: a swapped-out node, DeleteShard, then a late NewTerm(0) and
			// a stream of the deposed term-0 leader)
			delete(fences, e.To)
		}
		if e.Kind == "newterm.answered" {
			ho := int64(-1)
			if e.Head != nil {
				ho = e.Head.Offset
			}
			fences[e.From] = append(fences[e.From], fence{e.Seq, e.Term, ho})
		}
	}
	// (2) no ack on a stream of a lower term after the fence (acks rejected by the torn-down stream do not count)
	for _, e := range events {
		if e.Kind != "ack" {
			continue
		}
		for _, f := range fences[e.From] {
			// an ack for an offset the node had included in the head it reported is no progress (the sync that NewTerm
			// itself waits for completes the pending acknowledgement of exactly those entries)
			if e.Seq > f.seq && e.Term < f.term && e.Offset > f.headOffset {
				s.violation("C04: node %s sent an ack for offset %d on a term-%d stream (event #%d) after it had answered NewTerm(%d) (event #%d)",
					e.From, e.Offset, e.Term, e.Seq, f.term, f.seq)
				break
			}
		}
	}
	// (3) no client write invoked at N after the fence is acknowledged under a lower term
	termOfTag := map[string]int64{}
	for _, l := range logs {
		for _, e := range l {
			for _, tag := range entryTags(e) {
				if _, ok := termOfTag[tag]; !ok {
					termOfTag[tag] = e.Term
				}
			}
		}
	}
	for _, op := range s.ops {
		if op.Write == nil || op.Outcome != OutcomeOK {
			continue
		}
		et, ok := termOfTag[op.Tag]
		if !ok {
			continue
		}
		for _, f := range fences[op.Node] {
			if op.InvSeq > f.seq && et < f.term {
				s.violation("C04: write %s was invoked at %s after it had answered NewTerm(%d) and was acknowledged under term %d", op.Tag, op.Node, f.term, et)
				break
			}
		}
	}
	// successful reads served entirely inside a fenced interval
	for _, op := range s.ops {
		if op.Read == nil || op.Outcome != OutcomeOK {
			continue
		}
		for _, f := range fences[op.Node] {
			if op.InvSeq <= f.seq {
				continue
			}
			// the node becomes leader again only through a BecomeLeader it takes after the NewTerm. The order in which
			// the node took two calls that overlap is not visible from outside (a duplicate NewTerm of the same term
			// delivered late may be answered while the BecomeLeader of that term is already on its way: thorough tier,
			// rapid seed 1475029): the fence binds only when every BecomeLeader to the node had completed before the
			// NewTerm call started, or started after the read returned
			start := f.seq
			for _, e := range events {
				if (e.Kind == "newterm.send" || e.Kind == "late.newterm") && e.To == op.Node && e.Term == f.term && e.Seq < f.seq {
					start = e.Seq
				}
			}
			ledAgain := false
			for i, e := range events {
				if !((e.Kind == "becomeleader.send" || e.Kind == "late.becomeleader") && e.To == op.Node && e.Seq < op.RetSeq) {
					continue
				}
				// where this call ended (ok / refused / fail); still running at the end of the history = overlaps
				end := int64(1) << 62
				for _, x := range events[i+1:] {
					if (x.Kind == "becomeleader.ok" || x.Kind == "becomeleader.refused") && x.From == op.Node && x.Term == e.Term ||
						x.Kind == "becomeleader.fail" && x.To == op.Node && x.Term == e.Term {
						end = x.Seq
						break
					}
				}
				if end > start {
					ledAgain = true
				}
			}
			if !ledAgain {
				s.violation("C04: read %s was invoked at %s after it had answered NewTerm(%d) (no BecomeLeader since) and was served", op.Tag, op.Node, f.term)
				break
			}
		}
	}
}

// checkElectionSafety: C05 over the recorded coordinator events.
func (s *caseState) checkElectionSafety(events []Event) {
	lastStored := int64(-2)
	storedEnsemble := ""
	maxSent := int64(-2)
	leaderOf := map[int64]string{}
	delivered := map[int64]map[string]*proto.EntryId{} // term -> node -> head, at the time of the event
	for _, e := range events {
		switch e.Kind {
		case "meta.store":
			lastStored = e.Term
			storedEnsemble = e.Detail
		case "coord.start":
			// a restarted coordinator starts from what is stored
		case "newterm.send", "becomeleader.send", "addfollower.send":
			if e.Term != lastStored {
				s.violation("C05: the coordinator sent %s with term %d to %s while the durably stored term is %d (event #%d)", e.Kind, e.Term, e.To, lastStored, e.Seq)
			}
			if e.Term < maxSent {
				s.violation("C05: the coordinator sent %s with term %d after it had already sent term %d (event #%d)", e.Kind, e.Term, maxSent, e.Seq)
			}
			if e.Term > maxSent {
				maxSent = e.Term
			}
			if e.Kind == "becomeleader.send" {
				// remember the responder view at this instant for the ok event
				d := delivered[e.Term]
				ens := ensembleFromDetail(storedEnsemble)
				count := 0
				for n := range d {
					if ens[n] {
						count++
					}
				}
				e2 := e
				pendingBL[e.To+fmt.Sprint(e.Term)] = blView{ev: e2, responders: cloneHeads(d), ensemble: ens, count: count}
			}
		case "newterm.delivered":
			if delivered[e.Term] == nil {
				delivered[e.Term] = map[string]*proto.EntryId{}
			}
			delivered[e.Term][e.From] = e.Head
		case "becomeleader.ok":
			if prev, ok := leaderOf[e.Term]; ok && prev != e.From {
				s.violation("C05: two nodes became leader in term %d: %s and %s", e.Term, prev, e.From)
			}
			leaderOf[e.Term] = e.From
			v, ok := pendingBL[e.From+fmt.Sprint(e.Term)]
			if !ok {
				continue
			}
			if !v.ensemble[e.From] {
				s.violation("C05: %s was installed as leader of term %d but is not a member of the ensemble %v", e.From, e.Term, sortedKeys(v.ensemble))
			}
			if v.count < len(v.ensemble)/2+1 {
				s.violation("C05: %s was installed as leader of term %d after only %d of the %d ensemble members had been fenced in that term", e.From, e.Term, v.count, len(v.ensemble))
			}
			lh := v.responders[e.From]
			for n, h := range v.responders {
				if !v.ensemble[n] || lh == nil || h == nil {
					continue
				}
				if h.Term > lh.Term || (h.Term == lh.Term && h.Offset > lh.Offset) {
					// only responders the coordinator had when it chose count: those in the follower map
					if _, inMap := v.ev.Follower[n]; inMap {
						s.violation("C05: %s (head (%d,%d)) was installed as leader of term %d although the fenced ensemble member %s reported a higher head (%d,%d)",
							e.From, lh.Term, lh.Offset, e.Term, n, h.Term, h.Offset)
					}
				}
			}
		case "newterm.answered":
			// handled per node in noteFenced; a node must never accept a term below one it already answered
		}
	}
	// per node: answered terms never go down
	last := map[string]int64{}
	for _, e := range events {
		if e.Kind == "deleteshard" && e.Err == "" {
			// the replica was removed from this node on the coordinator's order: the node keeps nothing of the shard,
			// a later (late) request finds a node that has never seen it
			delete(last, e.To)
		}
		if e.Kind == "newterm.answered" {
			if p, ok := last[e.From]; ok && e.Term < p {
				s.violation("C05: node %s answered NewTerm(%d) after it had answered NewTerm(%d)", e.From, e.Term, p)
			}
			if e.Term > last[e.From] {
				last[e.From] = e.Term
			}
		}
	}
	for k := range pendingBL {
		delete(pendingBL, k)
	}
}

type blView struct {
	ev         Event
	responders map[string]*proto.EntryId
	ensemble   map[string]bool
	count      int
}

var pendingBL = map[string]blView{}

func cloneHeads(m map[string]*proto.EntryId) map[string]*proto.EntryId {
	out := map[string]*proto.EntryId{}
	for k, v := range m {
		out[k] = v
	}
	return out
}

func ensembleFromDetail(d string) map[string]bool {
	out := map[string]bool{}
	i := strings.Index(d, "ensemble=[")
	if i < 0 {
		return out
	}
	rest := d[i+len("ensemble=["):]
	j := strings.Index(rest, "]")
	if j < 0 {
		return out
	}
	for _, n := range strings.Fields(rest[:j]) {
		out[n] = true
	}
	return out
}

// matchesSwapSignature: the listed finding -- some election whose stored metadata carried removed nodes fenced a
// removed node whose reported head covers the lost write, and installed a leader whose reported head does not.
func (s *caseState) matchesSwapSignature(events []Event, op *ClientOp) bool {
	s.c.wire.mu.Lock()
	pos := s.c.wire.tagPos[op.Tag]
	s.c.wire.mu.Unlock()
	if pos == nil {
		return false
	}
	covers := func(h *proto.EntryId) bool {
		return h != nil && (h.Term > pos.Term || (h.Term == pos.Term && h.Offset >= pos.Offset))
	}
	removedAt := map[int64]map[string]bool{} // term -> removed nodes stored with it
	for _, e := range events {
		if e.Kind == "meta.store" {
			i := strings.Index(e.Detail, "removed=[")
			if i < 0 {
				continue
			}
			rest := e.Detail[i+len("removed=["):]
			if j := strings.Index(rest, "]"); j > 0 {
				if removedAt[e.Term] == nil {
					removedAt[e.Term] = map[string]bool{}
				}
				for _, n := range strings.Fields(rest[:j]) {
					removedAt[e.Term][n] = true
				}
			}
		}
	}
	heads := map[int64]map[string]*proto.EntryId{}
	for _, e := range events {
		if e.Kind == "newterm.answered" {
			if heads[e.Term] == nil {
				heads[e.Term] = map[string]*proto.EntryId{}
			}
			heads[e.Term][e.From] = e.Head
		}
	}
	for _, e := range events {
		if e.Kind != "becomeleader.ok" || len(removedAt[e.Term]) == 0 {
			continue
		}
		removedCovers := false
		for n := range removedAt[e.Term] {
			if covers(heads[e.Term][n]) {
				removedCovers = true
			}
		}
		if removedCovers && !covers(heads[e.Term][e.From]) {
			return true
		}
	}
	return false
}

func TestC01_Cluster(t *testing.T) { rapid.Check(t, func(t *rapid.T) { runProgram(t, "C01") }) }
func TestC02_Cluster(t *testing.T) { rapid.Check(t, func(t *rapid.T) { runProgram(t, "C02") }) }
func TestC03_Cluster(t *testing.T) { rapid.Check(t, func(t *rapid.T) { runProgram(t, "C03") }) }
func TestC04_Cluster(t *testing.T) { rapid.Check(t, func(t *rapid.T) { runProgram(t, "C04") }) }
func TestC05_Cluster(t *testing.T) { rapid.Check(t, func(t *rapid.T) { runProgram(t, "C05") }) }

var _ = model.ShardStatusSteadyState

// TestKF_C01 / _C02 / _C03 re-confirm the listed finding with a scripted schedule (no generator), each looking at
// the consequence that its property forbids.
func TestKF_C01(t *testing.T) { kfSwap(t, "C01", kfSwapBehind) }
func TestKF_C02(t *testing.T) { kfSwap(t, "C02", kfSwapBehindC02) }
func TestKF_C03(t *testing.T) { kfSwap(t, "C03", kfSwapBehindC03) }

func kfSwap(t *testing.T, prop, sig string) {
	if !evid.Known(sig) {
		return
	}
	for attempt := 0; attempt < 3; attempt++ {
		if kfSwapOnce(t, prop, sig) {
			return
		}
	}
}

func kfSwapOnce(t *testing.T, prop, sig string) bool {
	dir, err := os.MkdirTemp(tmpRoot, "kf01-")
	if err != nil {
		t.Fatalf("mkdtemp: %v", err)
	}
	defer os.RemoveAll(dir)
	c, err := newCluster(dir, 4, 3, 64*1024)
	if err != nil {
		t.Fatalf("cluster: %v", err)
	}
	defer c.close()
	leader, ok := c.waitLeader(10 * time.Second)
	if !ok {
		return false
	}
	var f1, f2 string
	for _, n := range c.order[:3] {
		if n != leader {
			if f1 == "" {
				f1 = n
			} else {
				f2 = n
			}
		}
	}
	spare := c.order[3]
	// f2 lags: it cannot hear the leader
	c.wire.setLink(leader, f2, false)
	op := &ClientOp{ID: 1, Node: leader, Tag: "kfw", Write: &proto.WriteRequest{Puts: []*proto.PutRequest{{Key: "a", Value: []byte("2")}, {Key: "m/kfw", Value: []byte("kfw")}}}}
	c.doWrite(op, 3*time.Second)
	if op.Outcome != OutcomeOK {
		return false
	}
	before := &ClientOp{ID: 2, Node: leader, Tag: "kfr1", Read: &proto.GetRequest{Key: "a", IncludeValue: true}}
	c.doRead(before, 3*time.Second)
	// f1 (which has the write) answers the next NewTerm late; the old leader is swapped out
	hold := make(chan struct{})
	c.wire.mu.Lock()
	c.wire.newTermHold[f1] = hold
	c.wire.mu.Unlock()
	done := make(chan error, 1)
	go func() { done <- c.controller().SwapNode(c.nodes[leader].server(), c.nodes[spare].server()) }()
	select {
	case <-done:
	case <-time.After(5 * time.Second):
	}
	close(hold)
	nl, ok := c.waitLeader(5 * time.Second)
	if !ok {
		return false
	}
	es, okLog := c.nodes[nl].walEntries()
	if !okLog {
		return false
	}
	for _, e := range es {
		for _, tag := range entryTagsOf(e) {
			if tag == "kfw" {
				return true // the write survived: the finding did not reproduce in this run
			}
		}
	}
	scenario := fmt.Sprintf("ensemble {%s,%s,%s}, leader %s; a write is acknowledged with the quorum {%s,%s} (%s lags); SwapNode(%s->%s) while %s answers NewTerm late: newTermQuorum counts a majority over ensemble+removed nodes (the removed %s, the lagging %s and the empty %s) but refuses removed nodes as candidates, so %s is installed with an empty log",
		leader, f1, f2, leader, leader, f1, f2, leader, spare, f1, leader, f2, spare, nl)
	switch prop {
	case "C01":
		evid.KnownFinding("C01", fmt.Sprintf("%s: %s and the acknowledged write is gone", sig, scenario))
	case "C02":
		// the read completed before the swap returned the acknowledged value; the same read on the new leader
		if before.Outcome != OutcomeOK || before.Get == nil || string(before.Get.Value) != "2" {
			return false
		}
		after := &ClientOp{ID: 3, Node: nl, Tag: "kfr2", Read: &proto.GetRequest{Key: "a", IncludeValue: true}}
		c.doRead(after, 3*time.Second)
		if after.Outcome != OutcomeOK || after.Get == nil {
			return false
		}
		if after.Get.Status == proto.Status_OK && string(after.Get.Value) == "2" {
			return true
		}
		evid.KnownFinding("C02", fmt.Sprintf("%s: %s; a read of key 'a' completed before the swap returned the acknowledged value \"2\" (version 0), the same read on the new leader answers %v: the first read observed data that was rolled back", sig, scenario, after.Get.Status))
	case "C03":
		// f1 acknowledged the entry (term, offset) of the write; the new leader's log holds something else there
		c.wire.mu.Lock()
		pos := c.wire.tagPos["kfw"]
		c.wire.mu.Unlock()
		if pos == nil {
			return false
		}
		w2 := &ClientOp{ID: 4, Node: nl, Tag: "kfw2", Write: &proto.WriteRequest{Puts: []*proto.PutRequest{{Key: "b", Value: []byte("3")}, {Key: "m/kfw2", Value: []byte("kfw2")}}}}
		c.doWrite(w2, 3*time.Second)
		es, okLog = c.nodes[nl].walEntries()
		if !okLog {
			return false
		}
		what := "nothing"
		for _, e := range es {
			if e.Offset == pos.Offset {
				if e.Term == pos.Term {
					return true
				}
				what = fmt.Sprintf("an entry of term %d %v", e.Term, entryTagsOf(e))
			}
		}
		evid.KnownFinding("C03", fmt.Sprintf("%s: %s; %s and %s had acknowledged entry (term %d, offset %d) of that write, the log of the new leader %s holds %s at offset %d: replica logs diverge at an acknowledged offset", sig, scenario, leader, f1, pos.Term, pos.Offset, nl, what, pos.Offset))
	}
	return true
}
