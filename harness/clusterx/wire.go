//go:build verif

// Package clusterx is the cluster engine: 3-5 real storage nodes (real ShardsDirector, real internal
// RPC dispatcher, real WAL and Pebble through the nodekit wrapping factories) and the real coordinator
// ShardController, connected by a wire the harness owns. Every coordination and replication message
// crosses a link object that can be up, down or paused, and is recorded in one ordered history on
// which the oracles of C01-C05 are evaluated.
package clusterx

import (
	"context"
	"fmt"
	"io"
	"sync"
	"sync/atomic"
	"time"

	"google.golang.org/grpc/codes"
	"google.golang.org/grpc/health/grpc_health_v1"
	"google.golang.org/grpc/metadata"
	"google.golang.org/grpc/status"

	"github.com/oxia-db/oxia/common/constant"
	"github.com/oxia-db/oxia/coordinator/model"
	"github.com/oxia-db/oxia/proto"
)

const coordName = "coord"

// ---- history -------------------------------------------------------------------------------------

type Event struct {
	Seq  int64
	Kind string // see the emitters
	From string
	To   string
	Term int64
	// free-form payload
	Offset   int64
	Head     *proto.EntryId
	Err      string
	Detail   string
	Follower map[string]*proto.EntryId
	StreamID int64
}

func (e Event) String() string {
	s := fmt.Sprintf("#%d %s %s->%s term=%d", e.Seq, e.Kind, e.From, e.To, e.Term)
	if e.Offset != 0 || e.Kind == "ack" || e.Kind == "append" {
		s += fmt.Sprintf(" off=%d", e.Offset)
	}
	if e.Head != nil {
		s += fmt.Sprintf(" head=(%d,%d)", e.Head.Term, e.Head.Offset)
	}
	if e.Follower != nil {
		s += fmt.Sprintf(" followers=%v", fmtFollowers(e.Follower))
	}
	if e.Err != "" {
		s += " err=" + e.Err
	}
	if e.Detail != "" {
		s += " " + e.Detail
	}
	return s
}

func fmtFollowers(m map[string]*proto.EntryId) string {
	s := "{"
	for _, k := range sortedKeys(m) {
		s += fmt.Sprintf("%s:(%d,%d) ", k, m[k].Term, m[k].Offset)
	}
	return s + "}"
}

type History struct {
	mu     sync.Mutex
	events []Event
	seq    int64
}

func (h *History) add(e Event) int64 {
	h.mu.Lock()
	defer h.mu.Unlock()
	h.seq++
	e.Seq = h.seq
	h.events = append(h.events, e)
	return e.Seq
}

func (h *History) snapshot() []Event {
	h.mu.Lock()
	defer h.mu.Unlock()
	return append([]Event{}, h.events...)
}

func (h *History) lastSeq() int64 {
	h.mu.Lock()
	defer h.mu.Unlock()
	return h.seq
}

// ---- links ---------------------------------------------------------------------------------------

type linkKey struct{ a, b string }

type Wire struct {
	c       *Cluster
	hist    *History
	mu      sync.Mutex
	down    map[linkKey]bool // directed: messages a->b are lost / calls fail
	streams map[int64]*repStream
	nextID  atomic.Int64
	// response holds for coordinator NewTerm calls: node -> channel that must be closed before the
	// response is handed back to the coordinator
	newTermHold map[string]chan struct{}
	violations  []string
	// log position of every client request seen on the wire: marker tag -> (term, offset)
	tagPos map[string]*proto.EntryId
	// coordination requests the coordinator has sent so far: the network may deliver any of them again, late
	sent []sentMsg
	// NewTerm answers whose head is below the commit offset of the answering node's database (a node that installed
	// a snapshot reports the head of its emptied log): the root cause of a listed finding
	headBelowCommit []string
}

// sentMsg is a coordination request as it left the coordinator.
type sentMsg struct {
	kind string // "newterm" | "becomeleader" | "addfollower"
	node string
	nt   *proto.NewTermRequest
	bl   *proto.BecomeLeaderRequest
	af   *proto.AddFollowerRequest
}

// checkReportedHead records a NewTerm answer that reports less than the node's database already holds.
func (w *Wire) checkReportedHead(n *Node, name string, term int64, head *proto.EntryId) {
	if head == nil {
		return
	}
	if dbc := dbCommitOffset(n.kvF.Last()); head.Offset < dbc {
		w.mu.Lock()
		w.headBelowCommit = append(w.headBelowCommit, fmt.Sprintf("%s answered NewTerm(%d) with head (%d,%d) while its database is at commit offset %d", name, term, head.Term, head.Offset, dbc))
		w.mu.Unlock()
	}
}

func (w *Wire) reportedHeadsBelowCommit() []string {
	w.mu.Lock()
	defer w.mu.Unlock()
	return append([]string(nil), w.headBelowCommit...)
}

func (w *Wire) remember(m sentMsg) {
	w.mu.Lock()
	defer w.mu.Unlock()
	if len(w.sent) < 200 {
		w.sent = append(w.sent, m)
	}
}

func (w *Wire) sentCount() int {
	w.mu.Lock()
	defer w.mu.Unlock()
	return len(w.sent)
}

// deliverLate hands the i-th remembered request to its node once more, as a duplicate that was delayed in the
// network (a superseded election's message arriving after later ones). Nothing goes back to the coordinator.
// What the node does is recorded with the same event kinds as a first delivery, so that every node-side oracle
// (fences, one leader per term, terms never decrease) applies to it.
func (w *Wire) deliverLate(i int) string {
	w.mu.Lock()
	if i >= len(w.sent) {
		w.mu.Unlock()
		return "none"
	}
	m := w.sent[i]
	w.mu.Unlock()
	n, err := w.reach(coordName, m.node)
	if err != nil {
		return fmt.Sprintf("late %s to %s lost (%v)", m.kind, m.node, err)
	}
	ctx, cancel := context.WithTimeout(context.Background(), 1500*time.Millisecond)
	defer cancel()
	switch m.kind {
	case "newterm":
		w.hist.add(Event{Kind: "late.newterm", From: coordName, To: m.node, Term: m.nt.Term})
		inc := n.incarnation()
		res, err := n.rpc().NewTerm(ctx, m.nt.CloneVT())
		if err != nil {
			w.hist.add(Event{Kind: "newterm.refused", From: m.node, To: coordName, Term: m.nt.Term, Err: errStr(err), Detail: "late"})
			return fmt.Sprintf("late NewTerm(%d) to %s refused", m.nt.Term, m.node)
		}
		w.hist.add(Event{Kind: "newterm.answered", From: m.node, To: coordName, Term: m.nt.Term, Head: res.HeadEntryId, Offset: int64(inc), Detail: "late"})
		n.noteFenced(m.nt.Term, res.HeadEntryId)
		w.checkReportedHead(n, m.node, m.nt.Term, res.HeadEntryId)
		return fmt.Sprintf("late NewTerm(%d) to %s accepted", m.nt.Term, m.node)
	case "becomeleader":
		w.hist.add(Event{Kind: "late.becomeleader", From: coordName, To: m.node, Term: m.bl.Term, Follower: m.bl.FollowerMaps})
		_, err := n.rpc().BecomeLeader(ctx, m.bl.CloneVT())
		if err != nil {
			w.hist.add(Event{Kind: "becomeleader.refused", From: m.node, To: coordName, Term: m.bl.Term, Err: errStr(err), Detail: "late"})
			return fmt.Sprintf("late BecomeLeader(%d) to %s refused", m.bl.Term, m.node)
		}
		n.noteLeader(m.bl.Term)
		w.hist.add(Event{Kind: "becomeleader.ok", From: m.node, To: coordName, Term: m.bl.Term, Detail: "late"})
		return fmt.Sprintf("late BecomeLeader(%d) to %s accepted", m.bl.Term, m.node)
	case "addfollower":
		w.hist.add(Event{Kind: "late.addfollower", From: coordName, To: m.node, Term: m.af.Term, Detail: m.af.FollowerName, Head: m.af.FollowerHeadEntryId})
		_, err := n.rpc().AddFollower(ctx, m.af.CloneVT())
		w.hist.add(Event{Kind: "addfollower.done", From: m.node, To: coordName, Term: m.af.Term, Detail: m.af.FollowerName + " late", Err: errStr(err)})
		return fmt.Sprintf("late AddFollower(%d,%s) to %s: %v", m.af.Term, m.af.FollowerName, m.node, err)
	}
	return "none"
}

func (w *Wire) noteEntry(e *proto.LogEntry) {
	tags := entryTagsOf(e)
	if len(tags) == 0 {
		return
	}
	w.mu.Lock()
	defer w.mu.Unlock()
	if w.tagPos == nil {
		w.tagPos = map[string]*proto.EntryId{}
	}
	for _, t := range tags {
		if _, ok := w.tagPos[t]; !ok {
			w.tagPos[t] = &proto.EntryId{Term: e.Term, Offset: e.Offset}
		}
	}
}

// entryTagsOf extracts the marker tags ("m/<tag>" puts) of the client requests carried by a log entry.
func entryTagsOf(e *proto.LogEntry) []string {
	lev := &proto.LogEntryValue{}
	if err := lev.UnmarshalVT(e.Value); err != nil {
		return nil
	}
	var tags []string
	for _, wr := range lev.GetRequests().Writes {
		for _, p := range wr.Puts {
			if len(p.Key) > 2 && p.Key[:2] == "m/" {
				tags = append(tags, p.Key[2:])
			}
		}
	}
	return tags
}

func newWire(c *Cluster, h *History) *Wire {
	return &Wire{c: c, hist: h, down: map[linkKey]bool{}, streams: map[int64]*repStream{}, newTermHold: map[string]chan struct{}{}}
}

func (w *Wire) violation(f string, a ...any) {
	w.mu.Lock()
	w.violations = append(w.violations, fmt.Sprintf(f, a...))
	w.mu.Unlock()
}

func (w *Wire) isUp(a, b string) bool {
	w.mu.Lock()
	defer w.mu.Unlock()
	return !w.down[linkKey{a, b}] && !w.down[linkKey{b, a}]
}

// setLink cuts or heals the (bidirectional) link between a and b; cutting breaks the open streams.
func (w *Wire) setLink(a, b string, up bool) {
	w.mu.Lock()
	if up {
		delete(w.down, linkKey{a, b})
		delete(w.down, linkKey{b, a})
	} else {
		w.down[linkKey{a, b}] = true
		w.down[linkKey{b, a}] = true
	}
	var toBreak []*repStream
	if !up {
		for _, s := range w.streams {
			if (s.leader == a && s.follower == b) || (s.leader == b && s.follower == a) {
				toBreak = append(toBreak, s)
			}
		}
	}
	w.mu.Unlock()
	for _, s := range toBreak {
		s.breakStream(status.Error(codes.Unavailable, "link down"))
	}
}

func (w *Wire) breakNodeStreams(node string) {
	w.mu.Lock()
	var toBreak []*repStream
	for _, s := range w.streams {
		if s.leader == node || s.follower == node {
			toBreak = append(toBreak, s)
		}
	}
	w.mu.Unlock()
	for _, s := range toBreak {
		s.breakStream(status.Error(codes.Unavailable, "node down"))
	}
}

var errUnavailable = status.Error(codes.Unavailable, "harness: unreachable")

// reach returns the target node if the call from -> to can be delivered now.
func (w *Wire) reach(from, to string) (*Node, error) {
	n := w.c.node(to)
	if n == nil {
		return nil, status.Errorf(codes.Unavailable, "harness: unknown node %s", to)
	}
	if !w.isUp(from, to) || !n.isUp() {
		return nil, errUnavailable
	}
	return n, nil
}

// ---- coordinator -> node (coordinator/rpc.Provider) -----------------------------------------------

type coordRPC struct{ w *Wire }

func (r *coordRPC) PushShardAssignments(context.Context, model.Server) (proto.OxiaCoordination_PushShardAssignmentsClient, error) {
	return nil, errUnavailable
}
func (r *coordRPC) GetHealthClient(model.Server) (grpc_health_v1.HealthClient, io.Closer, error) {
	return nil, nil, errUnavailable
}
func (r *coordRPC) ClearPooledConnections(model.Server) {}

func errStr(err error) string {
	if err == nil {
		return ""
	}
	return err.Error()
}

func (r *coordRPC) NewTerm(ctx context.Context, node model.Server, req *proto.NewTermRequest) (*proto.NewTermResponse, error) {
	w := r.w
	name := node.Internal
	w.hist.add(Event{Kind: "newterm.send", From: coordName, To: name, Term: req.Term})
	w.remember(sentMsg{kind: "newterm", node: name, nt: req.CloneVT()})
	n, err := w.reach(coordName, name)
	if err != nil {
		w.hist.add(Event{Kind: "newterm.fail", From: coordName, To: name, Term: req.Term, Err: errStr(err)})
		return nil, err
	}
	inc := n.incarnation()
	res, err := n.rpc().NewTerm(ctx, req)
	if err != nil {
		w.hist.add(Event{Kind: "newterm.refused", From: name, To: coordName, Term: req.Term, Err: errStr(err)})
		return nil, err
	}
	// the node has answered: from this instant it is fenced in req.Term (C04 starts observing here)
	w.hist.add(Event{Kind: "newterm.answered", From: name, To: coordName, Term: req.Term, Head: res.HeadEntryId, Offset: int64(inc)})
	n.noteFenced(req.Term, res.HeadEntryId)
	w.checkReportedHead(n, name, req.Term, res.HeadEntryId)
	w.mu.Lock()
	hold := w.newTermHold[name]
	delete(w.newTermHold, name)
	w.mu.Unlock()
	if hold != nil {
		select {
		case <-hold:
		case <-ctx.Done():
			return nil, ctx.Err()
		case <-time.After(3 * time.Second):
		}
	}
	if !w.isUp(coordName, name) {
		w.hist.add(Event{Kind: "newterm.resplost", From: name, To: coordName, Term: req.Term})
		return nil, errUnavailable
	}
	w.hist.add(Event{Kind: "newterm.delivered", From: name, To: coordName, Term: req.Term, Head: res.HeadEntryId})
	return res, nil
}

func (r *coordRPC) BecomeLeader(ctx context.Context, node model.Server, req *proto.BecomeLeaderRequest) (*proto.BecomeLeaderResponse, error) {
	w := r.w
	name := node.Internal
	w.hist.add(Event{Kind: "becomeleader.send", From: coordName, To: name, Term: req.Term, Follower: req.FollowerMaps, Offset: int64(req.ReplicationFactor)})
	w.remember(sentMsg{kind: "becomeleader", node: name, bl: req.CloneVT()})
	n, err := w.reach(coordName, name)
	if err != nil {
		w.hist.add(Event{Kind: "becomeleader.fail", From: coordName, To: name, Term: req.Term, Err: errStr(err)})
		return nil, err
	}
	// the real provider bounds every coordination RPC (30 s); a shorter bound explores the same behaviours
	bctx, cancel := context.WithTimeout(ctx, 1500*time.Millisecond)
	defer cancel()
	n.noteLeader(req.Term)
	res, err := n.rpc().BecomeLeader(bctx, req)
	if err != nil {
		w.hist.add(Event{Kind: "becomeleader.refused", From: name, To: coordName, Term: req.Term, Err: errStr(err)})
		return nil, err
	}
	// again after the node has accepted: a duplicate NewTerm of the same term may have been answered (and noted as a
	// fence) between the first note and the node taking the request
	n.noteLeader(req.Term)
	w.hist.add(Event{Kind: "becomeleader.ok", From: name, To: coordName, Term: req.Term})
	if !w.isUp(coordName, name) {
		return nil, errUnavailable
	}
	return res, nil
}

func (r *coordRPC) AddFollower(ctx context.Context, node model.Server, req *proto.AddFollowerRequest) (*proto.AddFollowerResponse, error) {
	w := r.w
	name := node.Internal
	w.hist.add(Event{Kind: "addfollower.send", From: coordName, To: name, Term: req.Term, Detail: req.FollowerName, Head: req.FollowerHeadEntryId})
	w.remember(sentMsg{kind: "addfollower", node: name, af: req.CloneVT()})
	n, err := w.reach(coordName, name)
	if err != nil {
		return nil, err
	}
	res, err := n.rpc().AddFollower(ctx, req)
	w.hist.add(Event{Kind: "addfollower.done", From: name, To: coordName, Term: req.Term, Detail: req.FollowerName, Err: errStr(err)})
	return res, err
}

func (r *coordRPC) GetStatus(ctx context.Context, node model.Server, req *proto.GetStatusRequest) (*proto.GetStatusResponse, error) {
	n, err := r.w.reach(coordName, node.Internal)
	if err != nil {
		return nil, err
	}
	return n.rpc().GetStatus(ctx, req)
}

func (r *coordRPC) DeleteShard(ctx context.Context, node model.Server, req *proto.DeleteShardRequest) (*proto.DeleteShardResponse, error) {
	w := r.w
	name := node.Internal
	n, err := w.reach(coordName, name)
	if err != nil {
		return nil, err
	}
	res, err := n.rpc().DeleteShard(ctx, req)
	w.hist.add(Event{Kind: "deleteshard", From: coordName, To: name, Term: req.Term, Err: errStr(err)})
	if err == nil {
		n.noteDeleted()
	}
	return res, err
}

// ---- node -> node (server.ReplicationRpcProvider), one per source node ------------------------------

type nodeRPC struct {
	w    *Wire
	from string
}

func (*nodeRPC) Close() error { return nil }

func (r *nodeRPC) Truncate(follower string, req *proto.TruncateRequest) (*proto.TruncateResponse, error) {
	w := r.w
	w.hist.add(Event{Kind: "truncate.send", From: r.from, To: follower, Term: req.Term, Head: req.HeadEntryId})
	n, err := w.reach(r.from, follower)
	if err != nil {
		return nil, err
	}
	n.noteReplicationFrom(req.Term)
	res, err := n.rpc().Truncate(context.Background(), req)
	var head *proto.EntryId
	if res != nil {
		head = res.HeadEntryId
	}
	w.hist.add(Event{Kind: "truncate.done", From: follower, To: r.from, Term: req.Term, Head: head, Err: errStr(err)})
	return res, err
}

func streamMD(ctx context.Context, ns string, shard, term int64) context.Context {
	return metadata.NewIncomingContext(ctx, metadata.Pairs(
		constant.MetadataNamespace, ns,
		constant.MetadataShardId, fmt.Sprintf("%d", shard),
		constant.MetadataTerm, fmt.Sprintf("%d", term)))
}

func (r *nodeRPC) GetReplicateStream(ctx context.Context, follower string, ns string, shard int64, term int64) (proto.OxiaLogReplication_ReplicateClient, error) {
	w := r.w
	n, err := w.reach(r.from, follower)
	if err != nil {
		return nil, err
	}
	sctx, cancel := context.WithCancel(ctx)
	s := &repStream{w: w, id: w.nextID.Add(1), leader: r.from, follower: follower, term: term, ctx: sctx, cancel: cancel,
		toFollower: make(chan *proto.Append, 4096), toLeader: make(chan *proto.Ack, 4096), done: make(chan struct{}), closeSend: make(chan struct{}),
		sent: map[int64]*proto.LogEntry{}, fnode: n, finc: n.incarnation()}
	w.mu.Lock()
	w.streams[s.id] = s
	w.mu.Unlock()
	w.hist.add(Event{Kind: "stream.open", From: r.from, To: follower, Term: term, StreamID: s.id})
	srv := &repServer{s: s, ctx: streamMD(sctx, ns, shard, term)}
	go func() {
		defer func() {
			if r := recover(); r != nil {
				notePanic(fmt.Sprintf("panic in Replicate handler of %s: %v", follower, r))
				s.handlerReturned(errUnavailable)
			}
		}()
		err := n.rpc().Replicate(srv)
		s.handlerReturned(err)
	}()
	return &repClient{s: s}, nil
}

type repStream struct {
	w          *Wire
	id         int64
	leader     string
	follower   string
	term       int64
	ctx        context.Context
	cancel     context.CancelFunc
	toFollower chan *proto.Append
	toLeader   chan *proto.Ack
	done       chan struct{} // closed when the follower's handler returned or the stream was broken
	closeSend  chan struct{} // closed when the leader side called CloseSend
	doneOnce   sync.Once
	mu         sync.Mutex
	err        error
	handlerEnd bool
	sendClosed bool
	sent       map[int64]*proto.LogEntry // entries the leader put on this stream
	fnode      *Node
	finc       int
}

func (s *repStream) finish(err error) {
	s.doneOnce.Do(func() {
		s.mu.Lock()
		s.err = err
		s.mu.Unlock()
		close(s.done)
		s.cancel()
		s.w.mu.Lock()
		delete(s.w.streams, s.id)
		s.w.mu.Unlock()
	})
}

func (s *repStream) breakStream(err error) {
	s.w.hist.add(Event{Kind: "stream.broken", From: s.leader, To: s.follower, Term: s.term, StreamID: s.id})
	s.finish(err)
}

func (s *repStream) handlerReturned(err error) {
	s.mu.Lock()
	s.handlerEnd = true
	s.mu.Unlock()
	s.w.hist.add(Event{Kind: "stream.handlerdone", From: s.follower, To: s.leader, Term: s.term, StreamID: s.id, Err: errStr(err)})
	if err == nil {
		err = io.EOF
	}
	s.finish(err)
}

func (s *repStream) finalErr() error {
	s.mu.Lock()
	defer s.mu.Unlock()
	if s.err != nil {
		return s.err
	}
	return io.EOF
}

// client side (leader's follower cursor)
type repClient struct{ s *repStream }

func (c *repClient) Send(a *proto.Append) error {
	s := c.s
	select {
	case <-s.done:
		return s.finalErr()
	default:
	}
	if !s.w.isUp(s.leader, s.follower) {
		s.breakStream(errUnavailable)
		return errUnavailable
	}
	s.mu.Lock()
	if s.sendClosed {
		s.mu.Unlock()
		return status.Error(codes.Canceled, "send side closed")
	}
	s.sent[a.Entry.Offset] = a.Entry
	s.mu.Unlock()
	s.w.noteEntry(a.Entry)
	s.w.hist.add(Event{Kind: "append", From: s.leader, To: s.follower, Term: a.Term, Offset: a.Entry.Offset, StreamID: s.id,
		Detail: fmt.Sprintf("entryTerm=%d commit=%d", a.Entry.Term, a.CommitOffset)})
	select {
	case s.toFollower <- a:
		return nil
	case <-s.done:
		return s.finalErr()
	}
}

func (c *repClient) Recv() (*proto.Ack, error) {
	s := c.s
	select {
	case a := <-s.toLeader:
		return a, nil
	default:
	}
	select {
	case a := <-s.toLeader:
		return a, nil
	case <-s.done:
		// deliver what was already sent before the stream ended
		select {
		case a := <-s.toLeader:
			return a, nil
		default:
		}
		return nil, s.finalErr()
	}
}

func (c *repClient) CloseSend() error {
	s := c.s
	s.mu.Lock()
	if !s.sendClosed {
		s.sendClosed = true
		close(s.closeSend)
	}
	s.mu.Unlock()
	return nil
}
func (c *repClient) Header() (metadata.MD, error) { return metadata.MD{}, nil }
func (c *repClient) Trailer() metadata.MD         { return metadata.MD{} }
func (c *repClient) Context() context.Context     { return c.s.ctx }
func (c *repClient) SendMsg(any) error            { return fmt.Errorf("not supported") }
func (c *repClient) RecvMsg(any) error            { return fmt.Errorf("not supported") }

// server side (follower controller)
type repServer struct {
	s   *repStream
	ctx context.Context
}

func (r *repServer) Recv() (*proto.Append, error) {
	s := r.s
	// a stream that is already torn down delivers nothing more
	select {
	case <-s.done:
		return nil, status.Error(codes.Canceled, "stream closed")
	default:
	}
	select {
	case a := <-s.toFollower:
		s.fnode.noteReplicationFrom(a.Term)
		return a, nil
	case <-s.closeSend:
		select {
		case a := <-s.toFollower:
			s.fnode.noteReplicationFrom(a.Term)
			return a, nil
		default:
		}
		return nil, io.EOF
	case <-s.done:
		return nil, status.Error(codes.Canceled, "stream closed")
	}
}

func (r *repServer) Send(a *proto.Ack) error {
	s := r.s
	s.mu.Lock()
	ended := s.handlerEnd
	s.mu.Unlock()
	select {
	case <-s.done:
		ended = true
	default:
	}
	if ended {
		// gRPC rejects a Send after the handler returned / the stream was torn down
		s.w.hist.add(Event{Kind: "ack.rejected", From: s.follower, To: s.leader, Term: s.term, Offset: a.Offset, StreamID: s.id})
		return status.Error(codes.Canceled, "stream closed")
	}
	if !s.w.isUp(s.follower, s.leader) {
		s.breakStream(errUnavailable)
		return errUnavailable
	}
	s.w.hist.add(Event{Kind: "ack", From: s.follower, To: s.leader, Term: s.term, Offset: a.Offset, StreamID: s.id})
	s.w.c.onAck(s, a.Offset)
	select {
	case s.toLeader <- a:
		return nil
	case <-s.done:
		return status.Error(codes.Canceled, "stream closed")
	}
}
func (r *repServer) SetHeader(metadata.MD) error  { return nil }
func (r *repServer) SendHeader(metadata.MD) error { return nil }
func (r *repServer) SetTrailer(metadata.MD)       {}
func (r *repServer) Context() context.Context     { return r.ctx }
func (r *repServer) SendMsg(any) error            { return fmt.Errorf("not supported") }
func (r *repServer) RecvMsg(any) error            { return fmt.Errorf("not supported") }

// ---- snapshots -------------------------------------------------------------------------------------

func (r *nodeRPC) SendSnapshot(ctx context.Context, follower string, ns string, shard int64, term int64) (proto.OxiaLogReplication_SendSnapshotClient, error) {
	w := r.w
	n, err := w.reach(r.from, follower)
	if err != nil {
		return nil, err
	}
	sctx, cancel := context.WithCancel(ctx)
	s := &snapStream{w: w, leader: r.from, follower: follower, term: term, ctx: sctx, cancel: cancel,
		chunks: make(chan *proto.SnapshotChunk, 4096), resp: make(chan *proto.SnapshotResponse, 1), done: make(chan struct{})}
	w.hist.add(Event{Kind: "snapshot.open", From: r.from, To: follower, Term: term})
	n.noteReplicationFrom(term)
	go func() {
		defer func() {
			if r := recover(); r != nil {
				notePanic(fmt.Sprintf("panic in SendSnapshot handler of %s: %v", follower, r))
			}
		}()
		err := n.rpc().SendSnapshot(&snapServer{s: s, ctx: streamMD(sctx, ns, shard, term)})
		s.mu.Lock()
		s.err = err
		s.mu.Unlock()
		w.hist.add(Event{Kind: "snapshot.handlerdone", From: follower, To: r.from, Term: term, Err: errStr(err)})
		close(s.done)
	}()
	return &snapClient{s: s}, nil
}

type snapStream struct {
	w        *Wire
	leader   string
	follower string
	term     int64
	ctx      context.Context
	cancel   context.CancelFunc
	chunks   chan *proto.SnapshotChunk
	resp     chan *proto.SnapshotResponse
	done     chan struct{}
	mu       sync.Mutex
	err      error
	closed   bool
}

type snapClient struct{ s *snapStream }

func (c *snapClient) Send(ch *proto.SnapshotChunk) error {
	s := c.s
	if !s.w.isUp(s.leader, s.follower) {
		s.cancel()
		return errUnavailable
	}
	select {
	case s.chunks <- ch:
		return nil
	case <-s.done:
		return io.EOF
	case <-s.ctx.Done():
		return s.ctx.Err()
	}
}
func (c *snapClient) CloseAndRecv() (*proto.SnapshotResponse, error) {
	s := c.s
	s.mu.Lock()
	if !s.closed {
		s.closed = true
		close(s.chunks)
	}
	s.mu.Unlock()
	select {
	case r := <-s.resp:
		return r, nil
	case <-s.done:
		select {
		case r := <-s.resp:
			return r, nil
		default:
		}
		s.mu.Lock()
		defer s.mu.Unlock()
		if s.err != nil {
			return nil, s.err
		}
		return nil, io.EOF
	case <-s.ctx.Done():
		return nil, s.ctx.Err()
	}
}
func (c *snapClient) CloseSend() error             { return nil }
func (c *snapClient) Header() (metadata.MD, error) { return metadata.MD{}, nil }
func (c *snapClient) Trailer() metadata.MD         { return metadata.MD{} }
func (c *snapClient) Context() context.Context     { return c.s.ctx }
func (c *snapClient) SendMsg(any) error            { return fmt.Errorf("not supported") }
func (c *snapClient) RecvMsg(any) error            { return fmt.Errorf("not supported") }

type snapServer struct {
	s   *snapStream
	ctx context.Context
}

func (r *snapServer) Recv() (*proto.SnapshotChunk, error) {
	select {
	case ch, ok := <-r.s.chunks:
		if !ok {
			return nil, io.EOF
		}
		return ch, nil
	case <-r.s.ctx.Done():
		return nil, status.Error(codes.Canceled, "stream closed")
	}
}
func (r *snapServer) SendAndClose(resp *proto.SnapshotResponse) error {
	if !r.s.w.isUp(r.s.follower, r.s.leader) {
		return errUnavailable
	}
	r.s.w.hist.add(Event{Kind: "snapshot.ack", From: r.s.follower, To: r.s.leader, Term: r.s.term, Offset: resp.AckOffset})
	select {
	case r.s.resp <- resp:
	default:
	}
	return nil
}
func (r *snapServer) SetHeader(metadata.MD) error  { return nil }
func (r *snapServer) SendHeader(metadata.MD) error { return nil }
func (r *snapServer) SetTrailer(metadata.MD)       {}
func (r *snapServer) Context() context.Context     { return r.ctx }
func (r *snapServer) SendMsg(any) error            { return fmt.Errorf("not supported") }
func (r *snapServer) RecvMsg(any) error            { return fmt.Errorf("not supported") }
