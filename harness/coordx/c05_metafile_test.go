package coordx

// C05, coordinator side: "the coordinator never issues a term it has not first made durable, so a
// restarted coordinator never reuses or goes below a term already sent" - for every crash point of
// the coordinator, including the ones INSIDE a metadata write of the file provider.
//
// Generated: a history of cluster statuses (terms only grow), how many of them earlier coordinator
// incarnations stored, how many the crashing incarnation stores, and the crash point K. The crashing
// incarnation is a child process (this test binary re-executed) run under
//   strace -P <metadata path> -e inject=all:signal=SIGKILL:when=K
// so it is killed just before the K-th system call that touches the metadata file (whatever calls the
// implementation makes: the enumeration is over the real syscall sequence, not over a model of it).
// Oracle, evaluated by a fresh provider over the surviving file: the coordinator either refuses to
// start (error) or sees exactly the last acknowledged status or the one in flight - never "no
// metadata", never a lower term, never a mix - and can continue storing from the version it read.

import (
	"bufio"
	"bytes"
	"encoding/json"
	"fmt"
	"os"
	"os/exec"
	"path/filepath"
	"runtime"
	"sort"
	"strconv"
	"strings"
	"testing"
	"time"

	"pgregory.net/rapid"

	"github.com/oxia-db/oxia/coordinator/metadata"
	"github.com/oxia-db/oxia/coordinator/model"

	"verifharness/evid"
)

type metaProgram struct {
	Path     string                 `json:"path"`
	Statuses []*model.ClusterStatus `json:"statuses"`
}

// TestC05_MetaChild is the crashing coordinator incarnation. It does nothing unless re-executed by
// TestC05_MetaFile. All file system calls are issued from one locked OS thread so that strace's
// per-thread injection counter enumerates them deterministically.
func TestC05_MetaChild(t *testing.T) {
	prog := os.Getenv("VERIF_META_CHILD")
	if prog == "" {
		return
	}
	runtime.LockOSThread()
	raw, err := os.ReadFile(prog)
	if err != nil {
		fmt.Fprintf(os.Stdout, "CHILDERR %v\n", err)
		os.Exit(3)
	}
	var p metaProgram
	if err := json.Unmarshal(raw, &p); err != nil {
		fmt.Fprintf(os.Stdout, "CHILDERR %v\n", err)
		os.Exit(3)
	}
	provider := metadata.NewMetadataProviderFile(p.Path)
	_, ver, err := provider.Get()
	if err != nil {
		fmt.Fprintf(os.Stdout, "CHILDERR get: %v\n", err)
		os.Exit(3)
	}
	for i, cs := range p.Statuses {
		fmt.Fprintf(os.Stdout, "BEGIN %d\n", i)
		ver, err = provider.Store(cs, ver)
		if err != nil {
			fmt.Fprintf(os.Stdout, "CHILDERR store %d: %v\n", i, err)
			os.Exit(3)
		}
		fmt.Fprintf(os.Stdout, "STORED %d %s\n", i, ver)
	}
	fmt.Fprintf(os.Stdout, "DONE\n")
	os.Exit(0)
}

func drawStatusHistory(t *rapid.T, n int) []*model.ClusterStatus {
	nNs := rapid.IntRange(1, 2).Draw(t, "namespaces")
	cur := model.NewClusterStatus()
	for i := 0; i < nNs; i++ {
		ns := model.NamespaceStatus{ReplicationFactor: 3, Shards: map[int64]model.ShardMetadata{}}
		nSh := rapid.IntRange(1, 3).Draw(t, "shards")
		for s := 0; s < nSh; s++ {
			id := cur.ShardIdGenerator
			cur.ShardIdGenerator++
			ns.Shards[id] = model.ShardMetadata{Status: model.ShardStatusUnknown, Term: -1,
				Ensemble: []model.Server{mkServer(0, true), mkServer(1, true), mkServer(2, true)}}
		}
		cur.Namespaces[fmt.Sprintf("ns%d", i)] = ns
	}
	var out []*model.ClusterStatus
	for k := 0; k < n; k++ {
		next := cur.Clone()
		bumped := false
		for i := 0; i < nNs; i++ {
			name := fmt.Sprintf("ns%d", i)
			ns := next.Namespaces[name]
			ids := make([]int64, 0, len(ns.Shards))
			for id := range ns.Shards {
				ids = append(ids, id)
			}
			sort.Slice(ids, func(a, b int) bool { return ids[a] < ids[b] })
			for _, id := range ids {
				sm := ns.Shards[id]
				if rapid.IntRange(0, 2).Draw(t, "bump") > 0 || !bumped {
					sm.Term += int64(rapid.IntRange(1, 3).Draw(t, "dterm"))
					bumped = true
					if rapid.Bool().Draw(t, "steady") {
						sm.Status = model.ShardStatusSteadyState
						l := mkServer(rapid.IntRange(0, 2).Draw(t, "leader"), true)
						sm.Leader = &l
					} else {
						sm.Status = model.ShardStatusElection
						sm.Leader = nil
					}
					ns.Shards[id] = sm
				}
			}
			next.Namespaces[name] = ns
		}
		out = append(out, next)
		cur = next
	}
	return out
}

func statusJSON(cs *model.ClusterStatus) string {
	if cs == nil {
		return "<nil>"
	}
	b, _ := json.Marshal(cs)
	return string(b)
}

func maxTerms(cs *model.ClusterStatus) map[int64]int64 {
	m := map[int64]int64{}
	if cs == nil {
		return m
	}
	for _, ns := range cs.Namespaces {
		for id, sm := range ns.Shards {
			m[id] = sm.Term
		}
	}
	return m
}

// stracePaths lists the paths whose system calls count as crash points: the metadata file and the
// names a temp-file-and-rename implementation would plausibly use next to it.
func stracePaths(path string) []string {
	return []string{path, path + ".tmp", path + ".new", path + ".lock", path + "~", filepath.Dir(path)}
}

type metaOutcome struct {
	killed      bool
	began       int // index of the last BEGIN seen, -1 if none
	stored      int // index of the last STORED seen, -1 if none
	storedVer   string
	childErr    string
	straceError string
}

func runMetaChild(progFile, path string, k int) metaOutcome {
	args := []string{"-f", "-o", "/dev/null"}
	for _, p := range stracePaths(path) {
		args = append(args, "-P", p)
	}
	args = append(args, "-e", fmt.Sprintf("inject=all:signal=SIGKILL:when=%d", k), os.Args[0], "-test.run=^TestC05_MetaChild$")
	cmd := exec.Command("strace", args...)
	cmd.Env = append(os.Environ(), "VERIF_META_CHILD="+progFile, "GOMAXPROCS=2", "VERIF_EVID_OUT=")
	var out, errb bytes.Buffer
	cmd.Stdout = &out
	cmd.Stderr = &errb
	done := make(chan error, 1)
	if err := cmd.Start(); err != nil {
		return metaOutcome{straceError: err.Error(), began: -1, stored: -1}
	}
	go func() { done <- cmd.Wait() }()
	var werr error
	select {
	case werr = <-done:
	case <-time.After(60 * time.Second):
		_ = cmd.Process.Kill()
		<-done
		return metaOutcome{straceError: "child timed out", began: -1, stored: -1}
	}
	o := metaOutcome{began: -1, stored: -1}
	sc := bufio.NewScanner(&out)
	sawDone := false
	for sc.Scan() {
		f := strings.Fields(sc.Text())
		if len(f) == 0 {
			continue
		}
		switch f[0] {
		case "BEGIN":
			o.began, _ = strconv.Atoi(f[1])
		case "STORED":
			o.stored, _ = strconv.Atoi(f[1])
			o.storedVer = f[2]
		case "CHILDERR":
			o.childErr = sc.Text()
		case "DONE":
			sawDone = true
		}
	}
	if !sawDone && o.childErr == "" {
		// strace exits with 128+9 / is itself killed by the signal that killed the tracee
		o.killed = true
		if werr == nil {
			o.straceError = "child ended without DONE but strace reported success: " + errb.String()
		}
	}
	return o
}

func checkMetaCrash(t *rapid.T) {
	dir, err := os.MkdirTemp(tmpRoot, "meta-")
	if err != nil {
		t.Fatalf("tmp: %v", err)
	}
	defer os.RemoveAll(dir)
	path := filepath.Join(dir, "md", "cluster-status.json")

	nPre := rapid.IntRange(0, 2).Draw(t, "earlierStores")
	nChild := rapid.IntRange(1, 3).Draw(t, "childStores")
	hist := drawStatusHistory(t, nPre+nChild+1)
	k := rapid.IntRange(1, 16*nChild+8).Draw(t, "crashAtSyscall")

	// earlier incarnations: complete stores, in-process
	var acked *model.ClusterStatus
	ackedVer := metadata.NotExists
	if nPre > 0 {
		p := metadata.NewMetadataProviderFile(path)
		for i := 0; i < nPre; i++ {
			v, err := p.Store(hist[i], ackedVer)
			if err != nil {
				t.Fatalf("pre-store: %v", err)
			}
			acked, ackedVer = hist[i], v
		}
		_ = p.Close()
	}

	progFile := filepath.Join(dir, "program.json")
	raw, _ := json.Marshal(metaProgram{Path: path, Statuses: hist[nPre : nPre+nChild]})
	if err := os.WriteFile(progFile, raw, 0600); err != nil {
		t.Fatalf("program: %v", err)
	}
	o := runMetaChild(progFile, path, k)
	if o.straceError != "" || o.childErr != "" {
		t.Skipf("harness: %s %s", o.straceError, o.childErr)
	}
	if o.stored >= 0 {
		acked, ackedVer = hist[nPre+o.stored], metadata.Version(o.storedVer)
	}
	var inflight *model.ClusterStatus
	if o.killed && o.began > o.stored {
		inflight = hist[nPre+o.began]
	}

	desc := fmt.Sprintf("pre=%d child=%d k=%d killed=%v began=%d stored=%d", nPre, nChild, k, o.killed, o.began, o.stored)
	nontrivial := inflight != nil
	labels := []string{}
	if o.killed {
		labels = append(labels, "killed")
	}
	if inflight != nil {
		labels = append(labels, "killed_inside_store")
		if acked != nil {
			labels = append(labels, "killed_inside_store_over_existing")
		}
	}

	// the restarted coordinator
	p2 := metadata.NewMetadataProviderFile(path)
	defer p2.Close()
	got, gotVer, gerr := p2.Get()
	fail := func(format string, a ...any) {
		msg := fmt.Sprintf(format, a...)
		st, _ := os.Stat(path)
		size := int64(-1)
		if st != nil {
			size = st.Size()
		}
		t.Fatalf("C05: %s\n  case: %s\n  file size after the crash: %d\n  acknowledged: %s\n  in flight:    %s\n  read back:    %s (version %s, err %v)",
			msg, desc, size, statusJSON(acked), statusJSON(inflight), statusJSON(got), gotVer, gerr)
	}
	switch {
	case gerr != nil:
		// refusing to start is safe for the property (no term is issued)
		labels = append(labels, "restart_refused")
		evid.Case("C05", nontrivial, desc+" refused", labels...)
		return
	case got == nil:
		if acked != nil {
			fail("the restarted coordinator finds no metadata although a status was acknowledged: it would start again from term -1")
		}
		if inflight == nil && o.killed {
			labels = append(labels, "killed_before_first_store")
		}
	default:
		gj := statusJSON(got)
		switch {
		case acked != nil && gj == statusJSON(acked):
			if gotVer != ackedVer {
				fail("status is the acknowledged one but the version is %s, acknowledged %s", gotVer, ackedVer)
			}
		case inflight != nil && gj == statusJSON(inflight):
			labels = append(labels, "inflight_visible")
		default:
			for id, term := range maxTerms(acked) {
				if gt, ok := maxTerms(got)[id]; !ok || gt < term {
					fail("shard %d: term read back %d is below the acknowledged term %d", id, gt, term)
				}
			}
			fail("the status read back is neither the acknowledged nor the in-flight one")
		}
	}
	// and it can go on
	next := hist[len(hist)-1]
	v, err := p2.Store(next, gotVer)
	if err != nil {
		fail("store after restart failed: %v", err)
	}
	again, v2, err := p2.Get()
	if err != nil || statusJSON(again) != statusJSON(next) || v2 != v {
		fail("store after restart not read back: %s version %s err %v", statusJSON(again), v2, err)
	}
	evid.Case("C05", nontrivial, desc, labels...)
}

func TestC05_MetaFile(t *testing.T) {
	if _, err := exec.LookPath("strace"); err != nil {
		t.Skip("strace not available")
	}
	rapid.Check(t, checkMetaCrash)
}
