package coordx

import (
	"context"
	"fmt"
	"io"
	"reflect"
	"strings"
	"sync"
	"testing"
	"time"

	"google.golang.org/grpc"
	"google.golang.org/grpc/health/grpc_health_v1"
	grpcmd "google.golang.org/grpc/metadata"
	pb "google.golang.org/protobuf/proto"
	"pgregory.net/rapid"

	"github.com/oxia-db/oxia/coordinator"
	"github.com/oxia-db/oxia/coordinator/metadata"
	"github.com/oxia-db/oxia/coordinator/model"
	"github.com/oxia-db/oxia/proto"

	"verifharness/evid"
)

// ---------------------------------------------------------------------------------------------
// stub rpc.Provider: every node answers every RPC instantly and successfully; the shard
// assignments pushed to the nodes (what the nodes relay to clients) are recorded
// ---------------------------------------------------------------------------------------------

type stubRPC struct {
	mu        sync.Mutex
	published []*proto.ShardAssignments
}

func (r *stubRPC) take() []*proto.ShardAssignments {
	r.mu.Lock()
	defer r.mu.Unlock()
	out := r.published
	r.published = nil
	return out
}

type stubClientStream struct{ ctx context.Context }

func (*stubClientStream) Header() (grpcmd.MD, error) { return nil, nil }
func (*stubClientStream) Trailer() grpcmd.MD         { return nil }
func (*stubClientStream) CloseSend() error           { return nil }
func (s *stubClientStream) Context() context.Context { return s.ctx }
func (*stubClientStream) SendMsg(any) error          { return nil }
func (*stubClientStream) RecvMsg(any) error          { return nil }

type stubPushStream struct {
	stubClientStream
	r *stubRPC
}

func (s *stubPushStream) Send(a *proto.ShardAssignments) error {
	if err := s.ctx.Err(); err != nil {
		return err
	}
	s.r.mu.Lock()
	defer s.r.mu.Unlock()
	s.r.published = append(s.r.published, pb.Clone(a).(*proto.ShardAssignments))
	return nil
}
func (*stubPushStream) CloseAndRecv() (*proto.CoordinationShardAssignmentsResponse, error) {
	return &proto.CoordinationShardAssignmentsResponse{}, nil
}

func (r *stubRPC) PushShardAssignments(ctx context.Context, _ model.Server) (proto.OxiaCoordination_PushShardAssignmentsClient, error) {
	return &stubPushStream{stubClientStream{ctx}, r}, nil
}
func (*stubRPC) NewTerm(ctx context.Context, _ model.Server, _ *proto.NewTermRequest) (*proto.NewTermResponse, error) {
	if err := ctx.Err(); err != nil {
		return nil, err
	}
	return &proto.NewTermResponse{HeadEntryId: &proto.EntryId{Term: -1, Offset: -1}}, nil
}
func (*stubRPC) BecomeLeader(ctx context.Context, _ model.Server, _ *proto.BecomeLeaderRequest) (*proto.BecomeLeaderResponse, error) {
	if err := ctx.Err(); err != nil {
		return nil, err
	}
	return &proto.BecomeLeaderResponse{}, nil
}
func (*stubRPC) AddFollower(ctx context.Context, _ model.Server, _ *proto.AddFollowerRequest) (*proto.AddFollowerResponse, error) {
	if err := ctx.Err(); err != nil {
		return nil, err
	}
	return &proto.AddFollowerResponse{}, nil
}
func (*stubRPC) GetStatus(ctx context.Context, _ model.Server, _ *proto.GetStatusRequest) (*proto.GetStatusResponse, error) {
	if err := ctx.Err(); err != nil {
		return nil, err
	}
	return &proto.GetStatusResponse{Term: 0, Status: proto.ServingStatus_FOLLOWER, HeadOffset: -1, CommitOffset: -1}, nil
}
func (*stubRPC) DeleteShard(ctx context.Context, _ model.Server, _ *proto.DeleteShardRequest) (*proto.DeleteShardResponse, error) {
	if err := ctx.Err(); err != nil {
		return nil, err
	}
	return &proto.DeleteShardResponse{}, nil
}
func (*stubRPC) ClearPooledConnections(model.Server) {}

type stubHealth struct{}

func (stubHealth) Check(context.Context, *grpc_health_v1.HealthCheckRequest, ...grpc.CallOption) (*grpc_health_v1.HealthCheckResponse, error) {
	return &grpc_health_v1.HealthCheckResponse{Status: grpc_health_v1.HealthCheckResponse_SERVING}, nil
}
func (stubHealth) List(context.Context, *grpc_health_v1.HealthListRequest, ...grpc.CallOption) (*grpc_health_v1.HealthListResponse, error) {
	return &grpc_health_v1.HealthListResponse{}, nil
}

type stubWatch struct {
	stubClientStream
	first bool
}

func (w *stubWatch) Recv() (*grpc_health_v1.HealthCheckResponse, error) {
	if !w.first {
		w.first = true
		return &grpc_health_v1.HealthCheckResponse{Status: grpc_health_v1.HealthCheckResponse_SERVING}, nil
	}
	<-w.ctx.Done()
	return nil, w.ctx.Err()
}
func (stubHealth) Watch(ctx context.Context, _ *grpc_health_v1.HealthCheckRequest, _ ...grpc.CallOption) (grpc.ServerStreamingClient[grpc_health_v1.HealthCheckResponse], error) {
	return &stubWatch{stubClientStream: stubClientStream{ctx}}, nil
}

type nopCloser struct{}

func (nopCloser) Close() error { return nil }

func (*stubRPC) GetHealthClient(model.Server) (grpc_health_v1.HealthClient, io.Closer, error) {
	return stubHealth{}, nopCloser{}, nil
}

// ---------------------------------------------------------------------------------------------

// closeCoordinator closes the coordinator, but does not wait forever: Coordinator.Close waits for the
// balancer-action worker, and that worker blocks forever in ShardController.SwapNode when the
// balancer proposed a swap for a shard whose controller has meanwhile finished (namespace removed).
// In that case the blocked goroutines are abandoned and the node controllers are closed by hand.
func closeCoordinator(c coordinator.Coordinator) {
	done := make(chan struct{})
	go func() {
		_ = c.Close()
		close(done)
	}()
	select {
	case <-done:
	case <-time.After(500 * time.Millisecond):
		evid.Label("C18", "coordinator_close_hung_on_swap_of_deleted_shard", 1)
		for _, nc := range c.NodeControllers() {
			_ = nc.Close()
		}
	}
}

func fmtStatusShards(ns model.NamespaceStatus) string {
	parts := []string{}
	for _, id := range sortedShardIDs(ns.Shards) {
		sm := ns.Shards[id]
		parts = append(parts, fmt.Sprintf("%d[%d..%d]%s/term%d", id, sm.Int32HashRange.Min, sm.Int32HashRange.Max, sm.Status, sm.Term))
	}
	return strings.Join(parts, " ")
}

func assignmentRanges(ns *proto.NamespaceShardsAssignment) []hrange {
	var rs []hrange
	if ns == nil {
		return rs
	}
	for _, a := range ns.Assignments {
		r := a.GetInt32HashRange()
		if r == nil {
			rs = append(rs, hrange{a.Shard, 1, 0}) // no hash range at all: reported as inverted
			continue
		}
		rs = append(rs, hrange{a.Shard, r.MinHashInclusive, r.MaxHashInclusive})
	}
	return rs
}

const coordQuiesce = 20 * time.Second // harness safety net for waiting on the coordinator's goroutines

// TestC18_Coordinator drives a real coordinator.NewCoordinator (memory metadata provider, stub
// rpc.Provider) through a history of configs delivered over its notification channel and reads
// (a) every ShardAssignments pushed to the storage nodes, (b) WaitForNextUpdate at every quiescent
// point, (c) the persisted ClusterStatus for the id rules.
//
// Every step changes the set of namespaces (so that the end of ConfigChanged is observable in the
// status); server additions/removals ride along. No anti-affinity policies here: the refusal path is
// the same ApplyClusterChanges call that TestC18_ConfigHistory exercises, and a refused swap can
// send the coordinator's balancer goroutine into an endless loop (see C19 findings).
func TestC18_Coordinator(t *testing.T) {
	rapid.Check(t, func(t *rapid.T) {
		g := &c18gen{t: t, named: rapid.Bool().Draw(t, "named"), labels: map[int]map[string]string{}, drawn: map[int]bool{}}
		for i, n := 0, rapid.IntRange(1, 6).Draw(t, "nServers"); i < n; i++ {
			g.addServer(i)
		}
		drawNs := func(name string) nsSpec {
			hi := len(g.servers)
			if hi > 3 {
				hi = 3
			}
			return nsSpec{name: name, shards: uint32(rapid.IntRange(1, 16).Draw(t, "sc")), rf: uint32(rapid.IntRange(1, hi).Draw(t, "rf"))}
		}
		for i, n := 0, rapid.IntRange(0, 2).Draw(t, "nInitialNs"); i < n; i++ {
			g.nss = append(g.nss, drawNs(c18Names[i]))
		}

		var cfgMu sync.Mutex
		current := g.config()
		provider := func() (model.ClusterConfig, error) {
			cfgMu.Lock()
			defer cfgMu.Unlock()
			return *current, nil
		}
		// a coordinator (re)started over an existing, empty cluster status: skips the 1 s start-up wait
		// that only applies to a never-initialised cluster
		meta := metadata.NewMetadataProviderMemory()
		if _, err := meta.Store(model.NewClusterStatus(), metadata.NotExists); err != nil {
			t.Fatalf("C18: harness: %v", err)
		}
		rpcStub := &stubRPC{}
		notify := make(chan any)
		coord, err := coordinator.NewCoordinator(meta, provider, notify, rpcStub)
		if err != nil {
			t.Fatalf("C18: harness: NewCoordinator: %v", err)
		}
		defer closeCoordinator(coord)

		hist := []string{}
		everSeen := map[int64]string{} // shard id -> namespace and range it was created with
		prevGen := int64(0)
		prevNs := map[string]bool{}
		prevStatusNs := map[string]bool{}
		sawRemoval, removalThenAddition, nonPow2, serversChanged, lingering, cut := false, false, false, false, false, false
		steps := rapid.IntRange(1, 6).Draw(t, "steps")

		for step := 0; step < steps && !cut; step++ {
			edits := []string{}
			added := map[string]bool{}
			overLeftover := map[string]bool{} // namespaces configured again while the status still holds old shards
			if step == 0 {
				for _, n := range g.nss {
					added[n.name] = true
				}
			} else {
				// one namespace edit that changes the namespace set, plus optional server edits
				free := []string{}
				for _, n := range c18Names {
					if !g.hasNs(n) {
						free = append(free, n)
					}
				}
				remove := len(g.nss) > 0 && (len(free) == 0 || rapid.IntRange(0, 2).Draw(t, "rmNs") == 0)
				if remove {
					i := rapid.IntRange(0, len(g.nss)-1).Draw(t, "rmNsIdx")
					edits = append(edits, "-ns("+g.nss[i].name+")")
					g.nss = append(append([]nsSpec{}, g.nss[:i]...), g.nss[i+1:]...)
					sawRemoval = true
				}
				switch rapid.IntRange(0, 3).Draw(t, "srvEdit") {
				case 1:
					if len(g.servers) < 8 {
						for i := 0; i < c18ServerPool; i++ {
							if !g.inServers(i) {
								g.addServer(i)
								edits = append(edits, fmt.Sprintf("+s%d", i))
								serversChanged = true
								break
							}
						}
					}
				case 2:
					min := g.maxRF()
					if min < 1 {
						min = 1
					}
					if len(g.servers)-1 >= min {
						k := rapid.IntRange(0, len(g.servers)-1).Draw(t, "rmSrvIdx")
						edits = append(edits, fmt.Sprintf("-s%d", g.servers[k]))
						g.servers = append(append([]int{}, g.servers[:k]...), g.servers[k+1:]...)
						serversChanged = true
					}
				}
				if !remove {
					n := drawNs(rapid.SampledFrom(free).Draw(t, "nsName"))
					if _, still := coord.StatusResource().Load().Namespaces[n.name]; still {
						// shards of the previous incarnation never went away (see below)
						if evid.Known(kfReaddWhileDeleting) {
							evid.Excluded("C18", kfReaddWhileDeleting)
							cut = true
							break
						}
						overLeftover[n.name] = true
					}
					g.nss = append(g.nss, n)
					added[n.name] = true
					edits = append(edits, fmt.Sprintf("+ns(%s:%d/rf%d)", n.name, n.shards, n.rf))
				}
				cfg := g.config()
				cfgMu.Lock()
				same := reflect.DeepEqual(current, cfg)
				current = cfg
				cfgMu.Unlock()
				if same {
					t.Fatalf("C18: harness: step without config change")
				}
				// unbuffered: taken only once the previous ConfigChanged call has returned
				select {
				case notify <- nil:
				case <-time.After(coordQuiesce):
					evid.Label("C18", "inconclusive_coordinator_timing", 1); t.Skipf("inconclusive: the coordinator did not take the config change notification within the bound; history=%v", hist)
				}
			}
			cfgMu.Lock()
			cfg := current
			cfgMu.Unlock()
			hist = append(hist, fmt.Sprintf("#%d edits=%v config{%s}", step, edits, g.fmtConfig()))

			// --- wait until every configured namespace is in the status with all its shards in steady
			// state (ConfigChanged ran, elections finished) ...
			want := map[string]bool{}
			for _, nc := range cfg.Namespaces {
				want[nc.Name] = true
			}
			deadline := time.Now().Add(coordQuiesce)
			var status *model.ClusterStatus
			for {
				status = coord.StatusResource().Load()
				ok := true
				for name := range want {
					ns, there := status.Namespaces[name]
					if !there {
						ok = false
						break
					}
					for _, sm := range ns.Shards {
						if sm.Status != model.ShardStatusSteadyState && !overLeftover[name] {
							ok = false
						}
					}
				}
				if ok {
					break
				}
				if time.Now().After(deadline) {
					evid.Label("C18", "inconclusive_coordinator_timing", 1); t.Skipf("inconclusive: the configured namespaces did not reach steady state within %v after step #%d (status namespaces %v); history=%v", coordQuiesce, step, sortedKeys(status.Namespaces), hist)
				}
				time.Sleep(200 * time.Microsecond)
			}
			// ... and, for a bounded time, until the removed namespaces are gone. They may stay for good:
			// a balancer swap still queued for a shard that is being deleted re-inserts the shard into
			// the status after its deletion (ShardController.swapNode -> electLeader -> UpdateShardMetadata).
			// That is outside the C18 statement as long as the name is not configured again.
			lingerDeadline := time.Now().Add(250 * time.Millisecond)
			for {
				status = coord.StatusResource().Load()
				extra := false
				for name := range status.Namespaces {
					if !want[name] {
						extra = true
					}
				}
				if !extra {
					break
				}
				if time.Now().After(lingerDeadline) {
					lingering = true
					break
				}
				time.Sleep(200 * time.Microsecond)
			}

			// --- (c) ids: unique cluster-wide, never reused, generator monotone
			if status.ShardIdGenerator < prevGen {
				t.Fatalf("C18: ShardIdGenerator went back from %d to %d; history=%v", prevGen, status.ShardIdGenerator, hist)
			}
			owner := map[int64]string{}
			for _, name := range sortedKeys(status.Namespaces) {
				ns := status.Namespaces[name]
				for _, id := range sortedShardIDs(ns.Shards) {
					if other, dup := owner[id]; dup {
						t.Fatalf("C18: shard id %d is used by namespaces %q and %q at the same time; history=%v", id, other, name, hist)
					}
					owner[id] = name
					what := fmt.Sprintf("%s[%d..%d]", name, ns.Shards[id].Int32HashRange.Min, ns.Shards[id].Int32HashRange.Max)
					if prev, seen := everSeen[id]; seen && prev != what {
						t.Fatalf("C18: shard id %d now is %s but was already used as %s; history=%v", id, what, prev, hist)
					}
					everSeen[id] = what
					if added[name] && !prevNs[name] && ns.Shards[id].Status != model.ShardStatusDeleting {
						if _, lingers := prevStatusNs[name]; !lingers && (id < prevGen || id >= status.ShardIdGenerator) {
							t.Fatalf("C18: shard %d of the newly added namespace %q is outside the fresh id range [%d..%d); history=%v", id, name, prevGen, status.ShardIdGenerator, hist)
						}
					}
				}
			}
			prevGen = status.ShardIdGenerator
			prevStatusNs = map[string]bool{}
			for name := range status.Namespaces {
				prevStatusNs[name] = true
			}

			// --- (b) the coordinator's current assignments: every configured namespace is a partition
			if len(cfg.Namespaces) > 0 {
				ctx, cancel := context.WithTimeout(context.Background(), coordQuiesce)
				asg, err := coord.WaitForNextUpdate(ctx, nil)
				cancel()
				if err != nil {
					t.Fatalf("C18: no shard assignments are published although %d namespaces are configured: %v; history=%v", len(cfg.Namespaces), err, hist)
				}
				for _, nc := range cfg.Namespaces {
					rs := assignmentRanges(asg.Namespaces[nc.Name])
					if p := partitionProblem(rs); p != "" {
						why := ""
						if overLeftover[nc.Name] {
							why = " (the namespace was configured again while the status still held shards of its previous incarnation: it is treated as existing and gets no new shard)"
						}
						t.Fatalf("C18: published assignments of namespace %q (%d shards) are not a partition of the hash space after step #%d: %s%s; assignments: %s; shards in the status: %s; history=%v",
							nc.Name, nc.InitialShardCount, step, p, why, fmtRanges(rs), fmtStatusShards(status.Namespaces[nc.Name]), hist)
					}
					if nc.InitialShardCount&(nc.InitialShardCount-1) != 0 {
						nonPow2 = true
					}
				}
			}
			for _, e := range edits {
				if strings.HasPrefix(e, "+ns") && sawRemoval {
					removalThenAddition = true
				}
			}

			// --- (a) everything pushed to the storage nodes during this step: a namespace that is
			// configured before and after the step is never published with a partial cover (it may be
			// absent or empty in a push computed before it got its shards)
			for _, a := range rpcStub.take() {
				seen := map[int64]string{}
				for _, name := range sortedKeys(a.Namespaces) {
					rs := assignmentRanges(a.Namespaces[name])
					for _, r := range rs {
						if other, dup := seen[r.id]; dup {
							t.Fatalf("C18: pushed assignments list shard %d under %q and %q; history=%v", r.id, other, name, hist)
						}
						seen[r.id] = name
					}
					if len(rs) == 0 || !want[name] || !prevNs[name] {
						continue
					}
					if p := partitionProblem(rs); p != "" {
						t.Fatalf("C18: assignments pushed to the storage nodes for namespace %q (configured before and after step #%d) are not a partition of the hash space: %s; assignments: %s; history=%v",
							name, step, p, fmtRanges(rs), hist)
					}
				}
			}
			prevNs = want
		}

		labels := []string{"real_coordinator"}
		if removalThenAddition {
			labels = append(labels, "removal_then_addition")
		}
		if nonPow2 {
			labels = append(labels, "count_not_dividing_2^32")
		}
		if serversChanged {
			labels = append(labels, "server_list_changed")
		}
		if lingering {
			labels = append(labels, "removed_namespace_lingers_in_status")
		}
		evid.Case("C18", removalThenAddition || nonPow2, "coordinator: "+strings.Join(hist, " | "), labels...)
	})
}
