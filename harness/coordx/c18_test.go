package coordx

import (
	"fmt"
	"sort"
	"strings"
	"testing"

	"pgregory.net/rapid"

	"github.com/oxia-db/oxia/common/sharding"
	"github.com/oxia-db/oxia/coordinator/model"
	"github.com/oxia-db/oxia/coordinator/policies"
	"github.com/oxia-db/oxia/coordinator/selectors/ensemble"
	"github.com/oxia-db/oxia/coordinator/utils"

	"verifharness/evid"
)

const (
	// ApplyClusterChanges logs and skips a shard whose ensemble selection is refused: the shard's hash
	// range then belongs to nobody.
	kfRefusedHole = "C18:refused-ensemble-leaves-hash-range-hole"
	// A namespace that is put back into the config while shards of its previous incarnation are still
	// in status (Deleting) is treated as "existing": no shard is created for it.
	kfReaddWhileDeleting = "C18:namespace-readded-while-deleting-gets-no-shards"
)

// ---------------------------------------------------------------------------------------------
// (a) GenerateShards
// ---------------------------------------------------------------------------------------------

func TestC18_GenerateShards(t *testing.T) {
	rapid.Check(t, func(t *rapid.T) {
		var n uint32
		switch rapid.IntRange(0, 19).Draw(t, "nKind") {
		case 0:
			n = uint32(rapid.IntRange(4097, 65536).Draw(t, "nBig"))
		case 1, 2:
			n = uint32(1) << uint(rapid.IntRange(0, 16).Draw(t, "nPow"))
		default:
			n = uint32(rapid.IntRange(1, 4096).Draw(t, "n"))
		}
		var base int64
		if rapid.Bool().Draw(t, "bigBase") {
			base = rapid.Int64Range(0, 1<<40).Draw(t, "base")
		} else {
			base = int64(rapid.IntRange(0, 200).Draw(t, "baseSmall"))
		}
		shards := sharding.GenerateShards(base, n)
		if len(shards) != int(n) {
			t.Fatalf("C18: GenerateShards(%d,%d) returned %d shards", base, n, len(shards))
		}
		rs := make([]hrange, len(shards))
		ids := map[int64]bool{}
		for i, s := range shards {
			rs[i] = hrange{s.Id, s.Min, s.Max}
			if s.Id < base || s.Id >= base+int64(n) || ids[s.Id] {
				t.Fatalf("C18: GenerateShards(%d,%d): shard #%d has id %d, want the ids %d..%d each once", base, n, i, s.Id, base, base+int64(n)-1)
			}
			ids[s.Id] = true
		}
		if p := partitionProblem(rs); p != "" {
			t.Fatalf("C18: GenerateShards(%d,%d) does not partition the hash space: %s", base, n, p)
		}
		// every key hash falls into exactly one shard (drawn hashes + the bucket boundaries)
		probes := []uint32{0, 1<<32 - 1, rs[len(rs)/2].min, rs[len(rs)/2].max}
		for i := 0; i < 4; i++ {
			probes = append(probes, rapid.Uint32().Draw(t, "hash"))
		}
		for _, h := range probes {
			owners := 0
			for _, r := range rs {
				if r.min <= h && h <= r.max {
					owners++
				}
			}
			if owners != 1 {
				t.Fatalf("C18: GenerateShards(%d,%d): hash %d is owned by %d shards", base, n, h, owners)
			}
		}
		nonPow2 := n&(n-1) != 0
		labels := []string{"generate_shards"}
		if nonPow2 {
			labels = append(labels, "count_not_dividing_2^32")
		}
		if n > 4096 {
			labels = append(labels, "n_over_4096")
		}
		evid.Case("C18", nonPow2, fmt.Sprintf("GenerateShards(base=%d,n=%d)", base, n), labels...)
	})
}

// ---------------------------------------------------------------------------------------------
// (b) histories of cluster configs through ApplyClusterChanges with the real ensemble selector
// ---------------------------------------------------------------------------------------------

type nsSpec struct {
	name   string
	shards uint32
	rf     uint32
	pol    *policies.Policies
}

const c18ServerPool = 10

var c18Names = []string{"default", "a", "b", "c", "d"}

type c18gen struct {
	t       *rapid.T
	named   bool
	labels  map[int]map[string]string
	drawn   map[int]bool
	servers []int
	nss     []nsSpec
}

func (g *c18gen) addServer(i int) {
	if !g.drawn[i] {
		g.drawn[i] = true
		g.labels[i] = drawLabels(g.t)
	}
	g.servers = append(g.servers, i)
}

func (g *c18gen) maxRF() int {
	m := 0
	for _, n := range g.nss {
		if int(n.rf) > m {
			m = int(n.rf)
		}
	}
	return m
}

func (g *c18gen) drawShardCount() uint32 {
	switch rapid.IntRange(0, 3).Draw(g.t, "scKind") {
	case 0:
		return uint32(rapid.SampledFrom([]int{1, 2, 4, 8, 16, 32, 64}).Draw(g.t, "scPow"))
	default:
		return uint32(rapid.IntRange(1, 64).Draw(g.t, "sc"))
	}
}

func (g *c18gen) drawRF() uint32 {
	hi := len(g.servers)
	if hi > 5 {
		hi = 5
	}
	return uint32(rapid.IntRange(1, hi).Draw(g.t, "rf"))
}

func (g *c18gen) hasNs(name string) bool {
	for _, n := range g.nss {
		if n.name == name {
			return true
		}
	}
	return false
}

func (g *c18gen) inServers(i int) bool {
	for _, s := range g.servers {
		if s == i {
			return true
		}
	}
	return false
}

// mutate applies one drawn config edit and returns its written-out form ("" when nothing applied).
func (g *c18gen) mutate(status *model.ClusterStatus) string {
	t := g.t
	type op struct {
		name string
		w    int
	}
	ops := []op{{"noop", 1}} // smallest draw = no edit, so that shrinking can blank out steps
	freeNames := []string{}
	skippedDeleting := false
	for _, n := range c18Names {
		if g.hasNs(n) {
			continue
		}
		if _, still := status.Namespaces[n]; still && evid.Known(kfReaddWhileDeleting) {
			skippedDeleting = true
			continue
		}
		freeNames = append(freeNames, n)
	}
	if skippedDeleting {
		evid.Excluded("C18", kfReaddWhileDeleting)
	}
	if len(freeNames) > 0 && len(g.servers) > 0 {
		ops = append(ops, op{"addNs", 4})
	}
	if len(g.nss) > 0 {
		ops = append(ops, op{"rmNs", 3}, op{"modNs", 1})
	}
	freeServers := []int{}
	for i := 0; i < c18ServerPool; i++ {
		if !g.inServers(i) {
			freeServers = append(freeServers, i)
		}
	}
	if len(freeServers) > 0 {
		ops = append(ops, op{"addSrv", 2})
	}
	minServers := g.maxRF()
	if minServers < 1 {
		minServers = 1
	}
	if len(g.servers)-1 >= minServers {
		ops = append(ops, op{"rmSrv", 2})
	}
	total := 0
	for _, o := range ops {
		total += o.w
	}
	x := rapid.IntRange(0, total-1).Draw(t, "op")
	chosen := ops[0].name
	for _, o := range ops {
		if x < o.w {
			chosen = o.name
			break
		}
		x -= o.w
	}
	switch chosen {
	case "noop":
		return ""
	case "addNs":
		n := nsSpec{name: rapid.SampledFrom(freeNames).Draw(t, "nsName"), shards: g.drawShardCount(), rf: g.drawRF(), pol: drawPolicy(t)}
		g.nss = append(g.nss, n)
		return fmt.Sprintf("+ns(%s:%d/rf%d/%s)", n.name, n.shards, n.rf, fmtPolicy(n.pol))
	case "rmNs":
		i := rapid.IntRange(0, len(g.nss)-1).Draw(t, "rmNsIdx")
		name := g.nss[i].name
		g.nss = append(append([]nsSpec{}, g.nss[:i]...), g.nss[i+1:]...)
		return "-ns(" + name + ")"
	case "modNs":
		// edits of an existing namespace (shard count, RF, policy): the coordinator ignores them, the
		// partition must stay intact
		i := rapid.IntRange(0, len(g.nss)-1).Draw(t, "modNsIdx")
		n := g.nss[i]
		switch rapid.IntRange(0, 2).Draw(t, "modKind") {
		case 0:
			n.shards = g.drawShardCount()
		case 1:
			n.rf = g.drawRF()
		default:
			n.pol = drawPolicy(t)
		}
		g.nss[i] = n
		return fmt.Sprintf("~ns(%s:%d/rf%d/%s)", n.name, n.shards, n.rf, fmtPolicy(n.pol))
	case "addSrv":
		i := rapid.SampledFrom(freeServers).Draw(t, "addSrv")
		g.addServer(i)
		return fmt.Sprintf("+s%d%s", i, fmtLabels(g.labels[i]))
	default:
		k := rapid.IntRange(0, len(g.servers)-1).Draw(t, "rmSrvIdx")
		i := g.servers[k]
		g.servers = append(append([]int{}, g.servers[:k]...), g.servers[k+1:]...)
		return fmt.Sprintf("-s%d", i)
	}
}

// distinctValues counts the values of label l over the current servers.
func (g *c18gen) distinctValues(l string) int {
	vals := map[string]bool{}
	for _, i := range g.servers {
		if v, ok := g.labels[i][l]; ok {
			vals[v] = true
		}
	}
	return len(vals)
}

// config builds the model.ClusterConfig of the current generator state. With the refused-ensemble
// finding listed as open, strict rules are kept only in a form the greedy selector satisfies by
// construction (one rule, one label, at least RF distinct values among the current servers).
func (g *c18gen) config() *model.ClusterConfig {
	cfg := &model.ClusterConfig{ServerMetadata: map[string]model.ServerMetadata{}}
	for _, i := range g.servers {
		s := mkServer(i, g.named)
		cfg.Servers = append(cfg.Servers, s)
		if g.labels[i] != nil {
			cfg.ServerMetadata[sid(s)] = model.ServerMetadata{Labels: g.labels[i]}
		}
	}
	for _, n := range g.nss {
		pol := n.pol
		if evid.Known(kfRefusedHole) && hasStrictRule(pol) {
			ok := len(pol.AntiAffinities) == 1 && len(pol.AntiAffinities[0].Labels) == 1 &&
				g.distinctValues(pol.AntiAffinities[0].Labels[0]) >= int(n.rf)
			if !ok {
				evid.Excluded("C18", kfRefusedHole)
				pol = nil
			}
		}
		cfg.Namespaces = append(cfg.Namespaces, model.NamespaceConfig{
			Name: n.name, InitialShardCount: n.shards, ReplicationFactor: n.rf, Policies: pol,
		})
	}
	return cfg
}

func (g *c18gen) fmtConfig() string {
	sv := make([]string, len(g.servers))
	for i, s := range g.servers {
		sv[i] = fmt.Sprintf("s%d%s", s, fmtLabels(g.labels[s]))
	}
	ns := make([]string, len(g.nss))
	for i, n := range g.nss {
		ns[i] = fmt.Sprintf("%s:%d/rf%d/%s", n.name, n.shards, n.rf, fmtPolicy(n.pol))
	}
	return "servers=" + strings.Join(sv, " ") + " namespaces=" + strings.Join(ns, " ")
}

func activeRanges(ns model.NamespaceStatus) []hrange {
	var rs []hrange
	for _, id := range sortedShardIDs(ns.Shards) {
		sm := ns.Shards[id]
		if sm.Status == model.ShardStatusDeleting {
			continue
		}
		rs = append(rs, hrange{id, sm.Int32HashRange.Min, sm.Int32HashRange.Max})
	}
	return rs
}

func TestC18_ConfigHistory(t *testing.T) {
	selector := ensemble.NewSelector()
	rapid.Check(t, func(t *rapid.T) {
		g := &c18gen{t: t, named: rapid.Bool().Draw(t, "named"), labels: map[int]map[string]string{}, drawn: map[int]bool{}}
		for i, n := 0, rapid.IntRange(1, 8).Draw(t, "nServers"); i < n; i++ {
			g.addServer(i)
		}
		hist := []string{}
		status := model.NewClusterStatus()
		for i, n := 0, rapid.IntRange(0, 3).Draw(t, "nInitialNs"); i < n; i++ {
			g.nss = append(g.nss, nsSpec{name: c18Names[i], shards: g.drawShardCount(), rf: g.drawRF(), pol: drawPolicy(t)})
		}
		steps := rapid.IntRange(1, 12).Draw(t, "steps")

		everSeen := map[int64]string{} // shard id -> "namespace@step" of its creation
		sawRemoval, removalThenAddition, nonPow2, sawRefusal, sawReaddWhileDeleting, partialDelete := false, false, false, false, false, false
		serversChanged, strictApplied := false, false

		for step := 0; step < steps; step++ {
			edits := []string{}
			if step > 0 {
				for i, n := 0, rapid.IntRange(1, 3).Draw(t, "nEdits"); i < n; i++ {
					if e := g.mutate(status); e != "" {
						edits = append(edits, e)
						if strings.HasPrefix(e, "-ns") {
							sawRemoval = true
						}
						if strings.HasPrefix(e, "+s") || strings.HasPrefix(e, "-s") {
							serversChanged = true
						}
					}
				}
			}
			cfg := g.config()
			hist = append(hist, fmt.Sprintf("#%d edits=%v config{%s}", step, edits, g.fmtConfig()))

			refused := map[string]string{}
			supplier := realSupplier(cfg, selector, func(ns string, err error) { refused[ns] = err.Error() })
			prevGen := status.ShardIdGenerator
			newStatus, toAdd, toDelete := utils.ApplyClusterChanges(cfg, status, supplier)

			// --- ShardIdGenerator monotone
			if newStatus.ShardIdGenerator < prevGen {
				t.Fatalf("C18: ShardIdGenerator went back from %d to %d; history=%v", prevGen, newStatus.ShardIdGenerator, hist)
			}
			// --- ids unique cluster-wide, never reused
			owner := map[int64]string{}
			for _, name := range sortedKeys(newStatus.Namespaces) {
				for _, id := range sortedShardIDs(newStatus.Namespaces[name].Shards) {
					if other, dup := owner[id]; dup {
						t.Fatalf("C18: shard id %d is used by namespaces %q and %q at the same time; history=%v", id, other, name, hist)
					}
					owner[id] = name
				}
			}
			addIDs := make([]int64, 0, len(toAdd))
			for id := range toAdd {
				addIDs = append(addIDs, id)
			}
			sort.Slice(addIDs, func(i, j int) bool { return addIDs[i] < addIDs[j] })
			for _, id := range addIDs {
				if prev, seen := everSeen[id]; seen {
					t.Fatalf("C18: shard id %d created for namespace %q was already used by %s; history=%v", id, toAdd[id], prev, hist)
				}
				if id >= newStatus.ShardIdGenerator {
					t.Fatalf("C18: new shard id %d is not below ShardIdGenerator=%d (it will be handed out again); history=%v", id, newStatus.ShardIdGenerator, hist)
				}
				if _, there := newStatus.Namespaces[toAdd[id]].Shards[id]; !there {
					t.Fatalf("C18: shard %d announced as added to %q is not in the new status; history=%v", id, toAdd[id], hist)
				}
				everSeen[id] = fmt.Sprintf("%s@#%d", toAdd[id], step)
			}
			for id, name := range owner {
				if _, seen := everSeen[id]; !seen {
					t.Fatalf("C18: shard %d of %q appeared without being announced as added; history=%v", id, name, hist)
				}
			}
			// --- per configured namespace: active shards partition the hash space
			created := map[string]bool{}
			for _, name := range toAdd {
				created[name] = true
			}
			for _, nc := range cfg.Namespaces {
				rs := activeRanges(newStatus.Namespaces[nc.Name])
				_, existedBefore := status.Namespaces[nc.Name]
				if _, isNew := newStatus.Namespaces[nc.Name]; isNew && !existedBefore {
					removalThenAddition = removalThenAddition || sawRemoval
					if hasStrictRule(nc.Policies) && len(rs) > 0 {
						strictApplied = true
					}
					if nc.InitialShardCount&(nc.InitialShardCount-1) != 0 {
						nonPow2 = true
					}
				}
				if refused[nc.Name] != "" && len(rs) == 0 {
					// the creation of the namespace was refused as a whole: nothing is published for it, which
					// the statement admits ("covered exactly once" speaks about published assignments)
					sawRefusal = true
					continue
				}
				if p := partitionProblem(rs); p != "" {
					why := ""
					switch {
					case refused[nc.Name] != "":
						sawRefusal = true
						why = fmt.Sprintf(" (ensemble selection was refused with %q: the shard is skipped, ShardIdGenerator %d->%d)", refused[nc.Name], prevGen, newStatus.ShardIdGenerator)
					case existedBefore && len(rs) == 0:
						sawReaddWhileDeleting = true
						why = " (the namespace was put back while shards of its previous incarnation are still being deleted: it is treated as existing and gets no shard)"
					}
					t.Fatalf("C18: namespace %q (%d shards, rf %d, policy %s) is not a partition of the hash space after step #%d: %s%s; active shards: %s; history=%v",
						nc.Name, nc.InitialShardCount, nc.ReplicationFactor, fmtPolicy(nc.Policies), step, p, why, fmtRanges(rs), hist)
				}
			}
			_ = toDelete

			// --- shard deletion progresses between two config changes: all / none / some of the
			// Deleting shards are gone (StatusResource.DeleteShardMetadata semantics)
			status = newStatus
			mode := rapid.IntRange(0, 5).Draw(t, "deletion")
			for _, name := range sortedKeys(status.Namespaces) {
				ns := status.Namespaces[name]
				for _, id := range sortedShardIDs(ns.Shards) {
					if ns.Shards[id].Status != model.ShardStatusDeleting {
						continue
					}
					gone := mode >= 2
					if mode == 1 {
						gone = rapid.Bool().Draw(t, "shardGone")
						partialDelete = true
					}
					if gone {
						delete(ns.Shards, id)
					}
				}
				if len(ns.Shards) == 0 {
					delete(status.Namespaces, name)
				}
			}
		}

		labels := []string{"config_history"}
		if removalThenAddition {
			labels = append(labels, "removal_then_addition")
		}
		if nonPow2 {
			labels = append(labels, "count_not_dividing_2^32")
		}
		if serversChanged {
			labels = append(labels, "server_list_changed")
		}
		if partialDelete {
			labels = append(labels, "deletion_pending_across_change")
		}
		if strictApplied {
			labels = append(labels, "namespace_created_under_strict_rule")
		}
		if sawRefusal || sawReaddWhileDeleting {
			labels = append(labels, "unreachable") // those cases fail above
		}
		evid.Case("C18", removalThenAddition || nonPow2, strings.Join(hist, " | "), labels...)
	})
}

// ---------------------------------------------------------------------------------------------
// scripted re-confirmation of the listed known findings
// ---------------------------------------------------------------------------------------------

func TestKF_C18(t *testing.T) {
	if evid.Known(kfRefusedHole) {
		// 4 servers in 2 zones, strict zone anti-affinity, RF 3
		cfg := &model.ClusterConfig{ServerMetadata: map[string]model.ServerMetadata{}}
		for i := 0; i < 4; i++ {
			s := mkServer(i, true)
			cfg.Servers = append(cfg.Servers, s)
			cfg.ServerMetadata[sid(s)] = model.ServerMetadata{Labels: map[string]string{"zone": labelValues[i%2]}}
		}
		cfg.Namespaces = []model.NamespaceConfig{{Name: "default", InitialShardCount: 2, ReplicationFactor: 3,
			Policies: &policies.Policies{AntiAffinities: []policies.AntiAffinity{{Labels: []string{"zone"}, Mode: policies.Strict}}}}}
		var refusedErr error
		st, _, _ := utils.ApplyClusterChanges(cfg, model.NewClusterStatus(), realSupplier(cfg, ensemble.NewSelector(), func(_ string, err error) { refusedErr = err }))
		if p := partitionProblem(activeRanges(st.Namespaces["default"])); p != "" && refusedErr != nil {
			evid.KnownFinding("C18", kfRefusedHole+fmt.Sprintf(": 4 servers in 2 zones, strict zone anti-affinity, rf 3: selection refused (%v), ApplyClusterChanges skips the shards: %s; ShardIdGenerator=%d", refusedErr, p, st.ShardIdGenerator))
		}
	}
	if evid.Known(kfReaddWhileDeleting) {
		cfg := &model.ClusterConfig{Servers: []model.Server{mkServer(0, true)}, ServerMetadata: map[string]model.ServerMetadata{}}
		withNs := *cfg
		withNs.Namespaces = []model.NamespaceConfig{{Name: "default", InitialShardCount: 1, ReplicationFactor: 1}}
		sel := ensemble.NewSelector()
		st, _, _ := utils.ApplyClusterChanges(&withNs, model.NewClusterStatus(), realSupplier(&withNs, sel, nil))
		st, _, _ = utils.ApplyClusterChanges(cfg, st, realSupplier(cfg, sel, nil))         // namespace removed, shard 0 Deleting
		st, _, _ = utils.ApplyClusterChanges(&withNs, st, realSupplier(&withNs, sel, nil)) // put back before the deletion finished
		if p := partitionProblem(activeRanges(st.Namespaces["default"])); p != "" {
			evid.KnownFinding("C18", kfReaddWhileDeleting+": namespace removed and put back before its shard was deleted: "+p)
		}
	}
}
