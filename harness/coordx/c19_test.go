package coordx

import (
	"context"
	"fmt"
	"sort"
	"strings"
	"sync"
	"testing"
	"time"

	"github.com/emirpasic/gods/v2/sets/linkedhashset"
	"pgregory.net/rapid"

	"github.com/oxia-db/oxia/common/sharding"
	"github.com/oxia-db/oxia/coordinator/balancer"
	"github.com/oxia-db/oxia/coordinator/metadata"
	"github.com/oxia-db/oxia/coordinator/model"
	"github.com/oxia-db/oxia/coordinator/policies"
	"github.com/oxia-db/oxia/coordinator/selectors/ensemble"
	"github.com/oxia-db/oxia/coordinator/utils"

	"verifharness/evid"
)

const (
	// Within one balancing round every proposal is computed from the status snapshot loaded at the
	// start of the round: a second proposal for a shard does not see the first one.
	kfStaleSnapshot = "C19:balancer-proposes-duplicate-target-from-stale-snapshot"
	// balanceHighestNode retries a refused swap of the same shard forever (`continue` without advancing
	// the shard iterator).
	kfLivelock = "C19:balancer-round-never-ends-after-refused-swap-on-highest-node"
)

// ---------------------------------------------------------------------------------------------
// cluster generator shared by the selector and the balancer checks
// ---------------------------------------------------------------------------------------------

type c19cluster struct {
	named   bool
	labels  map[int]map[string]string
	servers []int // current config, in config order
}

func (c *c19cluster) config(nss []nsSpec, dropped map[int]bool) *model.ClusterConfig {
	cfg := &model.ClusterConfig{ServerMetadata: map[string]model.ServerMetadata{}}
	for _, i := range c.servers {
		cfg.Servers = append(cfg.Servers, mkServer(i, c.named))
	}
	for _, i := range sortedInts(c.labels) {
		if c.labels[i] == nil || dropped[i] {
			continue
		}
		cfg.ServerMetadata[sid(mkServer(i, c.named))] = model.ServerMetadata{Labels: c.labels[i]}
	}
	for _, n := range nss {
		cfg.Namespaces = append(cfg.Namespaces, model.NamespaceConfig{Name: n.name, InitialShardCount: n.shards, ReplicationFactor: n.rf, Policies: n.pol})
	}
	return cfg
}

func sortedInts[V any](m map[int]V) []int {
	out := make([]int, 0, len(m))
	for k := range m {
		out = append(out, k)
	}
	sort.Ints(out)
	return out
}

func (c *c19cluster) fmtServers() string {
	p := make([]string, len(c.servers))
	for k, i := range c.servers {
		p[k] = fmt.Sprintf("s%d%s", i, fmtLabels(c.labels[i]))
	}
	return strings.Join(p, " ")
}

// excludedByRule: a strict rule keeps server id out of (or refuses) the ensemble although it is a
// current server that is not a member: it lacks a label of the rule or conflicts with a member.
func excludedByRule(p *policies.Policies, md map[string]model.ServerMetadata, members []string, id string) bool {
	if p == nil {
		return false
	}
	for _, r := range p.AntiAffinities {
		if r.Mode != policies.Strict || len(r.Labels) == 0 {
			continue
		}
		for _, l := range r.Labels {
			if _, ok := md[id].Labels[l]; !ok {
				return true
			}
		}
		for _, m := range members {
			if m != id && agreeOnAll(r, md, m, id) {
				return true
			}
		}
	}
	return false
}

// ---------------------------------------------------------------------------------------------
// (1) the ensemble selector
// ---------------------------------------------------------------------------------------------

func TestC19_Selector(t *testing.T) {
	selector := ensemble.NewSelector()
	rapid.Check(t, func(t *rapid.T) {
		c := &c19cluster{named: rapid.Bool().Draw(t, "named"), labels: map[int]map[string]string{}}
		n := rapid.IntRange(1, 12).Draw(t, "nServers")
		for i := 0; i < n; i++ {
			c.labels[i] = drawLabels(t)
			c.servers = append(c.servers, i)
		}
		pol := drawPolicy(t)
		hi := n
		if hi > 5 {
			hi = 5
		}
		rf := rapid.IntRange(1, hi).Draw(t, "rf")
		cfg := c.config(nil, nil)

		// existing placements (load skew), possibly on servers that left the config meanwhile
		st := model.NewClusterStatus()
		st.ServerIdx = uint32(rapid.IntRange(0, 24).Draw(t, "serverIdx"))
		ghosts := rapid.IntRange(0, 2).Draw(t, "ghosts")
		nShards := rapid.IntRange(0, 10).Draw(t, "existingShards")
		placed := []string{}
		if nShards > 0 {
			ns := model.NamespaceStatus{ReplicationFactor: 1, Shards: map[int64]model.ShardMetadata{}}
			hot := rapid.IntRange(0, n-1).Draw(t, "hotServer")
			for s := 0; s < nShards; s++ {
				k := rapid.IntRange(1, 3).Draw(t, "existingRf")
				var esm []model.Server
				used := map[int]bool{}
				for len(esm) < k && len(used) < n+ghosts {
					x := rapid.IntRange(0, n+ghosts-1).Draw(t, "member")
					if rapid.IntRange(0, 2).Draw(t, "skew") == 0 {
						x = hot
					}
					if used[x] {
						used[x] = true
						continue
					}
					used[x] = true
					esm = append(esm, mkServer(x, c.named)) // x >= n: a server no longer in the config
				}
				ns.Shards[int64(s)] = model.ShardMetadata{Status: model.ShardStatusSteadyState, Term: 1, Ensemble: esm}
				placed = append(placed, fmtEnsemble(esm))
			}
			st.Namespaces["existing"] = ns
			st.ShardIdGenerator = int64(nShards)
		}

		ids, err := selector.Select(ensembleContext(cfg, pol, rf, st))

		desc := fmt.Sprintf("select rf=%d policy=%s servers=%s serverIdx=%d existing=%v", rf, fmtPolicy(pol), c.fmtServers(), st.ServerIdx, placed)
		current := map[string]bool{}
		for _, s := range cfg.Servers {
			current[sid(s)] = true
		}
		labels := []string{"selector", "policy_" + strings.SplitN(fmtPolicy(pol), "(", 2)[0]}
		nontrivial := false
		if err != nil {
			if !hasStrictRule(pol) {
				t.Fatalf("C19: selection refused (%v) although the namespace has no strict rule and rf=%d <= %d servers; case=%s", err, rf, n, desc)
			}
			labels = append(labels, "refused")
			nontrivial = true
		} else {
			if len(ids) != rf {
				t.Fatalf("C19: selected ensemble %s has %d members, want rf=%d; case=%s", fmtIDs(ids), len(ids), rf, desc)
			}
			if d := duplicateIn(ids); d != "" {
				t.Fatalf("C19: selected ensemble %s contains %s twice; case=%s", fmtIDs(ids), short(d), desc)
			}
			for _, id := range ids {
				if !current[id] {
					t.Fatalf("C19: selected ensemble %s contains %q which is not a server of the current config; case=%s", fmtIDs(ids), id, desc)
				}
			}
			if v := aaViolation(pol, cfg.ServerMetadata, ids); v != "" {
				t.Fatalf("C19: selected ensemble %s violates strict anti-affinity: %s; case=%s", fmtIDs(ids), v, desc)
			}
			labels = append(labels, "selected")
			in := map[string]bool{}
			for _, id := range ids {
				in[id] = true
			}
			for _, s := range cfg.Servers {
				if !in[sid(s)] && excludedByRule(pol, cfg.ServerMetadata, ids, sid(s)) {
					nontrivial = true
				}
			}
		}
		if nontrivial {
			labels = append(labels, "rule_excludes_eligible_server")
		}
		evid.Case("C19", nontrivial, desc+fmt.Sprintf(" => %s err=%v", fmtIDs(ids), err), labels...)
	})
}

// ---------------------------------------------------------------------------------------------
// (2) the load balancer, driven through stub resources
// ---------------------------------------------------------------------------------------------

// stubConfig implements resources.ClusterConfigResource over a config the test swaps between rounds.
// It also bounds the number of swap attempts of one round: every attempt starts with one
// NamespaceConfig lookup, a terminating round makes at most one attempt per (node, shard replica) in
// each of its two phases. Past the bound the lookups answer "no such namespace", which makes the
// balancer skip the shard and lets the spinning round end.
type stubConfig struct {
	mu      sync.Mutex
	cfg     *model.ClusterConfig
	calls   int
	limit   int
	tripped bool
	abort   bool
}

func (s *stubConfig) set(cfg *model.ClusterConfig, limit int) {
	s.mu.Lock()
	defer s.mu.Unlock()
	s.cfg, s.calls, s.limit, s.tripped = cfg, 0, limit, false
}
func (*stubConfig) Close() error { return nil }
func (s *stubConfig) Load() *model.ClusterConfig {
	s.mu.Lock()
	defer s.mu.Unlock()
	return s.cfg
}
func (s *stubConfig) Nodes() *linkedhashset.Set[string] {
	n, _ := s.NodesWithMetadata()
	return n
}
func (s *stubConfig) NodesWithMetadata() (*linkedhashset.Set[string], map[string]model.ServerMetadata) {
	s.mu.Lock()
	defer s.mu.Unlock()
	nodes := linkedhashset.New[string]()
	for _, sv := range s.cfg.Servers {
		nodes.Add(sid(sv))
	}
	return nodes, s.cfg.ServerMetadata
}
func (s *stubConfig) NamespaceConfig(ns string) (*model.NamespaceConfig, bool) {
	s.mu.Lock()
	defer s.mu.Unlock()
	s.calls++
	if s.calls > s.limit {
		s.tripped = true
	}
	if s.tripped || s.abort {
		return nil, false
	}
	for i := range s.cfg.Namespaces {
		if s.cfg.Namespaces[i].Name == ns {
			return &s.cfg.Namespaces[i], true
		}
	}
	return nil, false
}
func (s *stubConfig) Node(id string) (*model.Server, bool) {
	s.mu.Lock()
	defer s.mu.Unlock()
	for i := range s.cfg.Servers {
		if sid(s.cfg.Servers[i]) == id {
			return &s.cfg.Servers[i], true
		}
	}
	return nil, false
}

// stubStatus implements resources.StatusResource. The balancer loads the status exactly once at the
// start of a round: Load hands the request to the test, which thereby learns that a round started
// (and that the previous one is over).
type stubStatus struct {
	req chan chan *model.ClusterStatus
}

func (s *stubStatus) Load() *model.ClusterStatus {
	reply := make(chan *model.ClusterStatus, 1)
	s.req <- reply
	return <-reply
}
func (s *stubStatus) LoadWithVersion() (*model.ClusterStatus, metadata.Version) { return s.Load(), "0" }
func (*stubStatus) Swap(*model.ClusterStatus, metadata.Version) bool            { return true }
func (*stubStatus) Update(*model.ClusterStatus)                                 {}
func (*stubStatus) UpdateShardMetadata(string, int64, model.ShardMetadata)      {}
func (*stubStatus) DeleteShardMetadata(string, int64)                           {}

type balEnv struct {
	lb      balancer.LoadBalancer
	cfg     *stubConfig
	st      *stubStatus
	pending chan *model.ClusterStatus
}

func newBalEnv() *balEnv {
	e := &balEnv{cfg: &stubConfig{cfg: &model.ClusterConfig{}}, st: &stubStatus{req: make(chan chan *model.ClusterStatus)}}
	e.lb = balancer.NewLoadBalancer(balancer.Options{
		Context:               context.Background(),
		ScheduleInterval:      time.Hour, // rounds only on Trigger
		QuarantineTime:        time.Hour,
		StatusResource:        e.st,
		ClusterConfigResource: e.cfg,
	})
	return e
}

const roundWatchdog = 60 * time.Second // harness safety net only; no decision of a passing case depends on it

// round runs exactly one balancing round over (cfg, st) and returns its proposals in order.
func (e *balEnv) round(cfg *model.ClusterConfig, st *model.ClusterStatus) (acts []*balancer.SwapNodeAction, livelock bool, err error) {
	replicas := 0
	for _, ns := range st.Namespaces {
		for _, sm := range ns.Shards {
			replicas += len(sm.Ensemble)
		}
	}
	e.cfg.set(cfg, 2*replicas+16)
	watchdog := time.NewTimer(roundWatchdog)
	defer watchdog.Stop()
	reply := e.pending
	e.pending = nil
	if reply == nil {
		e.lb.Trigger()
		select {
		case reply = <-e.st.req:
		case <-watchdog.C:
			return nil, false, fmt.Errorf("the balancer did not start a round within %v of Trigger()", roundWatchdog)
		}
	}
	reply <- st.Clone()
	e.lb.Trigger() // queued behind the running round: its Load() marks the end of this round
	for {
		select {
		case a := <-e.lb.Action():
			sw, ok := a.(*balancer.SwapNodeAction)
			if !ok {
				return acts, false, fmt.Errorf("unexpected action type %T", a)
			}
			acts = append(acts, sw)
			a.Done()
		case r := <-e.st.req:
			e.pending = r
			e.cfg.mu.Lock()
			livelock = e.cfg.tripped
			e.cfg.mu.Unlock()
			return acts, livelock, nil
		case p := <-goroutinePanics:
			return acts, false, fmt.Errorf("the balancer goroutine panicked: %s", p)
		case <-watchdog.C:
			return acts, false, fmt.Errorf("the balancing round did not end within %v", roundWatchdog)
		}
	}
}

func (e *balEnv) close(last *model.ClusterStatus) {
	e.cfg.mu.Lock()
	e.cfg.abort = true
	e.cfg.mu.Unlock()
	if e.pending != nil {
		e.pending <- last.Clone()
		e.pending = nil
	}
	done := make(chan struct{})
	go func() {
		for {
			select {
			case a := <-e.lb.Action():
				a.Done()
			case <-done:
				return
			}
		}
	}()
	closed := make(chan struct{})
	go func() {
		_ = e.lb.Close()
		close(closed)
	}()
	select {
	case <-closed:
	case <-time.After(5 * time.Second): // only after a watchdog failure: the round goroutine is abandoned
	}
	close(done)
}

type c19shard struct {
	ns  string
	id  int64
	pol *policies.Policies
	rf  int
}

func findShard(st *model.ClusterStatus, id int64) (string, model.ShardMetadata, bool) {
	for _, name := range sortedKeys(st.Namespaces) {
		if sm, ok := st.Namespaces[name].Shards[id]; ok {
			return name, sm, true
		}
	}
	return "", model.ShardMetadata{}, false
}

func fmtPlacement(st *model.ClusterStatus) string {
	parts := []string{}
	for _, name := range sortedKeys(st.Namespaces) {
		ns := st.Namespaces[name]
		for _, id := range sortedShardIDs(ns.Shards) {
			parts = append(parts, fmt.Sprintf("%s/%d%s", name, id, fmtEnsemble(ns.Shards[id].Ensemble)))
		}
	}
	return strings.Join(parts, " ")
}

func TestC19_Balancer(t *testing.T) {
	selector := ensemble.NewSelector()
	rapid.Check(t, func(t *rapid.T) {
		const pool = 12
		c := &c19cluster{named: rapid.Bool().Draw(t, "named"), labels: map[int]map[string]string{}}
		n := rapid.IntRange(2, 10).Draw(t, "nServers")
		for i := 0; i < n; i++ {
			c.labels[i] = drawLabels(t)
			c.servers = append(c.servers, i)
		}
		hist := []string{"servers=" + c.fmtServers()}

		// --- namespaces and their initial placement
		nNs := rapid.IntRange(1, 3).Draw(t, "nNamespaces")
		nss := []nsSpec{}
		st := model.NewClusterStatus()
		polOf := map[string]*policies.Policies{}
		rfOf := map[string]int{}
		for k := 0; k < nNs; k++ {
			hi := n
			if hi > 5 {
				hi = 5
			}
			spec := nsSpec{name: c18Names[k], shards: uint32(rapid.IntRange(1, 6).Draw(t, "shards")), rf: uint32(rapid.IntRange(1, hi).Draw(t, "rf")), pol: drawPolicy(t)}
			nss = append(nss, spec)
			polOf[spec.name], rfOf[spec.name] = spec.pol, int(spec.rf)
			// placement over a prefix of the servers (the others joined later: load skew)
			prefix := rapid.IntRange(int(spec.rf), n).Draw(t, "placedOver")
			sub := &c19cluster{named: c.named, labels: c.labels, servers: c.servers[:prefix]}
			subCfg := sub.config([]nsSpec{spec}, nil)
			mode := rapid.SampledFrom([]string{"selector", "random"}).Draw(t, "placement")
			if mode == "selector" {
				st, _, _ = utils.ApplyClusterChanges(subCfg, st, realSupplier(subCfg, selector, nil))
				// shards the coordinator just created: rf distinct servers of that config, anti-affinity kept
				inSub := map[string]bool{}
				for _, s := range subCfg.Servers {
					inSub[sid(s)] = true
				}
				created := st.Namespaces[spec.name]
				for _, id := range sortedShardIDs(created.Shards) {
					members := idsOf(created.Shards[id].Ensemble)
					bad := ""
					switch {
					case len(members) != int(spec.rf):
						bad = fmt.Sprintf("has %d members, want rf=%d", len(members), spec.rf)
					case duplicateIn(members) != "":
						bad = "contains " + short(duplicateIn(members)) + " twice"
					default:
						for _, m := range members {
							if !inSub[m] {
								bad = short(m) + " is not a server of the config"
							}
						}
						if bad == "" {
							bad = aaViolation(spec.pol, subCfg.ServerMetadata, members)
						}
					}
					if bad != "" {
						t.Fatalf("C19: shard %d created for namespace %s:%d/rf%d/%s over servers %s got ensemble %s: %s; history=%v",
							id, spec.name, spec.shards, spec.rf, fmtPolicy(spec.pol), sub.fmtServers(), fmtIDs(members), bad, hist)
					}
				}
			} else {
				nsStatus := model.NamespaceStatus{ReplicationFactor: spec.rf, Shards: map[int64]model.ShardMetadata{}}
				for _, sh := range sharding.GenerateShards(st.ShardIdGenerator, spec.shards) {
					var esm []model.Server
					for attempt := 0; attempt < 4 && esm == nil; attempt++ {
						perm := rapid.Permutation(sub.servers).Draw(t, "randomPlacement")[:spec.rf]
						cand := make([]model.Server, len(perm))
						for i, x := range perm {
							cand[i] = mkServer(x, c.named)
						}
						if aaViolation(spec.pol, subCfg.ServerMetadata, idsOf(cand)) == "" {
							esm = cand
						}
					}
					if esm == nil {
						continue // no valid placement drawn: the shard does not exist (as after a refusal)
					}
					nsStatus.Shards[sh.Id] = model.ShardMetadata{Status: model.ShardStatusSteadyState, Term: 1, Leader: &esm[0], Ensemble: esm,
						Int32HashRange: model.Int32HashRange{Min: sh.Min, Max: sh.Max}}
				}
				st.Namespaces[spec.name] = nsStatus
				st.ShardIdGenerator += int64(spec.shards)
			}
			hist = append(hist, fmt.Sprintf("ns %s:%d/rf%d/%s placed(%s) over first %d servers", spec.name, spec.shards, spec.rf, fmtPolicy(spec.pol), mode, prefix))
		}
		hist = append(hist, "placement: "+fmtPlacement(st))
		maxRF := 1
		for _, s := range nss {
			if int(s.rf) > maxRF {
				maxRF = int(s.rf)
			}
		}

		env := newBalEnv()
		defer func() { env.close(st) }()

		dropped := map[int]bool{}
		next := n
		rounds := rapid.IntRange(1, 3).Draw(t, "rounds")
		ruleExcludes, multiAction, sawRemoval, sawAddition, totalActions := false, false, false, false, 0
		stop := false
		for r := 0; r < rounds && !stop; r++ {
			// --- config edit before the round
			edit := []string{}
			kind := rapid.IntRange(0, 5).Draw(t, "editKind")
			if kind >= 1 && kind <= 3 { // remove 1-2 servers
				k := rapid.IntRange(1, 2).Draw(t, "nRemove")
				dropMeta := rapid.Bool().Draw(t, "dropMetadata")
				for ; k > 0 && len(c.servers)-1 >= maxRF; k-- {
					at := rapid.IntRange(0, len(c.servers)-1).Draw(t, "removeAt")
					x := c.servers[at]
					c.servers = append(append([]int{}, c.servers[:at]...), c.servers[at+1:]...)
					if dropMeta {
						dropped[x] = true
					}
					edit = append(edit, fmt.Sprintf("-s%d", x))
					sawRemoval = true
				}
			}
			if kind >= 3 { // add empty servers
				for k := rapid.IntRange(1, 3).Draw(t, "nAdd"); k > 0 && next < pool; k-- {
					c.labels[next] = drawLabels(t)
					c.servers = append(c.servers, next)
					edit = append(edit, fmt.Sprintf("+s%d%s", next, fmtLabels(c.labels[next])))
					next++
					sawAddition = true
				}
			}
			cfg := c.config(nss, dropped)

			// The balancer breaks load ties by Go map iteration order, so one (config, status) has
			// several possible rounds: the round is run a few times over the same input and each
			// outcome is checked; the first outcome is the one the case continues with.
			var first *roundOutcome
			for attempt := 0; attempt < balancerAttempts; attempt++ {
				o := evalRound(env, cfg, st.Clone(), polOf, rfOf)
				if attempt == 0 {
					first = o
					hist = append(hist, fmt.Sprintf("round#%d edits=%v servers=[%s] proposals=%v", r, edit, c.fmtServers(), o.actStr))
				}
				if o.harnessErr != nil {
					if strings.Contains(o.harnessErr.Error(), "panicked") {
						t.Fatalf("C19: %v; history=%v", o.harnessErr, hist)
					}
					evid.Label("C19", "inconclusive_round_watchdog", 1)
					t.Skipf("inconclusive: %v; history=%v", o.harnessErr, hist)
				}
				if o.violation != "" {
					t.Fatalf("C19: %s; proposals of the failing round (run %d of %d over the same input)=%v; placement before the round: %s; history=%v",
						o.violation, attempt+1, balancerAttempts, o.actStr, fmtPlacement(st), hist)
				}
			}
			st = first.st
			totalActions += first.nActs
			multiAction = multiAction || first.multiAction
			ruleExcludes = ruleExcludes || first.ruleExcludes
			stop = first.stop
		}

		labels := []string{"balancer"}
		if sawRemoval {
			labels = append(labels, "servers_removed")
		}
		if sawAddition {
			labels = append(labels, "servers_added")
		}
		if totalActions > 0 {
			labels = append(labels, "round_with_proposals")
		}
		if multiAction {
			labels = append(labels, "two_proposals_one_shard")
		}
		if ruleExcludes {
			labels = append(labels, "rule_excludes_eligible_server")
		}
		evid.Case("C19", ruleExcludes || multiAction, strings.Join(hist, " | "), labels...)
	})
}

const balancerAttempts = 3

type roundOutcome struct {
	harnessErr   error
	violation    string
	actStr       []string
	st           *model.ClusterStatus // status after applying the proposals
	nActs        int
	multiAction  bool
	ruleExcludes bool
	stop         bool // an excluded known-finding shape occurred: the case ends after this round
}

// evalRound runs one balancing round over (cfg, st), checks every proposal against the ensemble as
// updated by the earlier proposals of the round and applies it to st (which the caller owns).
func evalRound(env *balEnv, cfg *model.ClusterConfig, st *model.ClusterStatus, polOf map[string]*policies.Policies, rfOf map[string]int) *roundOutcome {
	o := &roundOutcome{st: st}
	current := map[string]bool{}
	for _, s := range cfg.Servers {
		current[sid(s)] = true
	}
	acts, livelock, err := env.round(cfg, st)
	o.nActs = len(acts)
	o.actStr = make([]string, len(acts))
	for i, a := range acts {
		o.actStr[i] = fmt.Sprintf("shard%d:%s->%s", a.Shard, short(sid(a.From)), short(sid(a.To)))
	}
	if err != nil {
		o.harnessErr = err
		return o
	}
	if livelock {
		if evid.Known(kfLivelock) {
			evid.Excluded("C19", kfLivelock)
			o.stop = true
		} else {
			o.violation = fmt.Sprintf("the balancing round never ends: after a refused swap the balancer kept retrying (more than %d swap attempts = 2x the number of shard replicas + 16) until the harness cut it off", env.cfg.limit)
			return o
		}
	}
	perShard := map[int64]int{}
	tainted := map[int64]bool{}
	for i, a := range acts {
		name, sm, ok := findShard(st, a.Shard)
		if !ok {
			o.violation = fmt.Sprintf("proposal #%d %s concerns a shard that does not exist", i, o.actStr[i])
			return o
		}
		perShard[a.Shard]++
		if perShard[a.Shard] >= 2 {
			if evid.Known(kfStaleSnapshot) {
				// listed as open: the second proposal for a shard is not checked, the case ends after this round
				evid.Excluded("C19", kfStaleSnapshot)
				tainted[a.Shard] = true
				o.stop = true
			} else {
				o.multiAction = true
			}
		}
		if tainted[a.Shard] {
			continue
		}
		members := idsOf(sm.Ensemble)
		from, to := sid(a.From), sid(a.To)
		inEnsemble := func(id string) bool {
			for _, m := range members {
				if m == id {
					return true
				}
			}
			return false
		}
		if !inEnsemble(from) {
			o.violation = fmt.Sprintf("proposal #%d %s: From=%s is not a member of the shard's ensemble %s (as updated by the earlier proposals of this round, %d for this shard)",
				i, o.actStr[i], short(from), fmtIDs(members), perShard[a.Shard]-1)
			return o
		}
		if !current[to] {
			o.violation = fmt.Sprintf("proposal #%d %s: To=%s is not a server of the current config", i, o.actStr[i], short(to))
			return o
		}
		if inEnsemble(to) {
			o.violation = fmt.Sprintf("proposal #%d %s: To=%s is already a member of the shard's ensemble %s (as updated by the %d earlier proposal(s) for this shard in this round; every proposal is computed from the snapshot taken at the start of the round); applying it gives %s",
				i, o.actStr[i], short(to), fmtIDs(members), perShard[a.Shard]-1, fmtEnsemble(applySwap(sm.Ensemble, a.From, a.To)))
			return o
		}
		// apply like ShardController.swapNode: drop From, append To
		sm.Ensemble = applySwap(sm.Ensemble, a.From, a.To)
		sm.RemovedNodes = append(sm.RemovedNodes, a.From)
		st.Namespaces[name].Shards[a.Shard] = sm
		if v := aaViolation(polOf[name], cfg.ServerMetadata, idsOf(sm.Ensemble)); v != "" {
			o.violation = fmt.Sprintf("proposal #%d %s gives ensemble %s of namespace %q (policy %s) which violates strict anti-affinity: %s",
				i, o.actStr[i], fmtEnsemble(sm.Ensemble), name, fmtPolicy(polOf[name]), v)
			return o
		}
		// did a strict rule keep an otherwise eligible server (current, not a member) away?
		for _, s := range cfg.Servers {
			if !inEnsemble(sid(s)) && sid(s) != to && excludedByRule(polOf[name], cfg.ServerMetadata, idsOf(sm.Ensemble), sid(s)) {
				o.ruleExcludes = true
			}
		}
	}
	// after the round: every ensemble still has rf distinct members
	for _, name := range sortedKeys(st.Namespaces) {
		ns := st.Namespaces[name]
		for _, id := range sortedShardIDs(ns.Shards) {
			if tainted[id] {
				continue
			}
			members := idsOf(ns.Shards[id].Ensemble)
			if len(members) != rfOf[name] || duplicateIn(members) != "" {
				o.violation = fmt.Sprintf("after the round shard %d of %q has ensemble %s, want %d distinct members", id, name, fmtIDs(members), rfOf[name])
				return o
			}
		}
	}
	return o
}

func applySwap(list []model.Server, from, to model.Server) []model.Server {
	var res []model.Server
	for _, item := range list {
		if sid(item) != sid(from) {
			res = append(res, item)
		}
	}
	return append(res, to)
}

// ---------------------------------------------------------------------------------------------
// scripted re-confirmation of the listed known findings
// ---------------------------------------------------------------------------------------------

func TestKF_C19(t *testing.T) {
	mk := func(ids ...int) []model.Server {
		out := make([]model.Server, len(ids))
		for i, x := range ids {
			out[i] = mkServer(x, true)
		}
		return out
	}
	if evid.Known(kfStaleSnapshot) {
		// servers {s2,s3,s4}; shard 0 on {s0,s1,s2}; s0 and s1 were removed from the config
		cfg := &model.ClusterConfig{Servers: mk(2, 3, 4), ServerMetadata: map[string]model.ServerMetadata{},
			Namespaces: []model.NamespaceConfig{{Name: "default", InitialShardCount: 1, ReplicationFactor: 3}}}
		st := model.NewClusterStatus()
		st.Namespaces["default"] = model.NamespaceStatus{ReplicationFactor: 3, Shards: map[int64]model.ShardMetadata{
			0: {Status: model.ShardStatusSteadyState, Term: 1, Ensemble: mk(0, 1, 2), Int32HashRange: model.Int32HashRange{Min: 0, Max: 1<<32 - 1}}}}
		st.ShardIdGenerator = 1
		env := newBalEnv()
		acts, _, err := env.round(cfg, st)
		env.close(st)
		if err != nil {
			t.Fatalf("harness: %v", err)
		}
		esm := st.Namespaces["default"].Shards[0].Ensemble
		props := []string{}
		for _, a := range acts {
			esm = applySwap(esm, a.From, a.To)
			props = append(props, fmt.Sprintf("%s->%s", sid(a.From), sid(a.To)))
		}
		if duplicateIn(idsOf(esm)) != "" {
			evid.KnownFinding("C19", kfStaleSnapshot+fmt.Sprintf(": servers {s2,s3,s4}, shard 0 on [s0 s1 s2] with s0,s1 removed: one round proposes %v, giving ensemble %s", props, fmtEnsemble(esm)))
		}
	}
	if evid.Known(kfLivelock) {
		// zones a:{s0} b:{s1,s4} c:{s2,s3}, strict zone rule, rf 3. s0 (the only server of zone a) is removed:
		// none of its replicas can be moved (refused), it stays the most loaded node.
		zone := map[int]string{0: "a", 1: "b", 4: "b", 2: "c", 3: "c"}
		cfg := &model.ClusterConfig{Servers: mk(1, 2, 3, 4), ServerMetadata: map[string]model.ServerMetadata{},
			Namespaces: []model.NamespaceConfig{{Name: "default", InitialShardCount: 3, ReplicationFactor: 3,
				Policies: &policies.Policies{AntiAffinities: []policies.AntiAffinity{{Labels: []string{"zone"}, Mode: policies.Strict}}}}}}
		for i := 0; i < 5; i++ {
			cfg.ServerMetadata[sid(mkServer(i, true))] = model.ServerMetadata{Labels: map[string]string{"zone": zone[i]}}
		}
		st := model.NewClusterStatus()
		shards := sharding.GenerateShards(0, 3)
		esms := [][]model.Server{mk(0, 1, 2), mk(0, 4, 3), mk(0, 1, 3)}
		nsStatus := model.NamespaceStatus{ReplicationFactor: 3, Shards: map[int64]model.ShardMetadata{}}
		for i, sh := range shards {
			nsStatus.Shards[sh.Id] = model.ShardMetadata{Status: model.ShardStatusSteadyState, Term: 1, Ensemble: esms[i], Int32HashRange: model.Int32HashRange{Min: sh.Min, Max: sh.Max}}
		}
		st.Namespaces["default"] = nsStatus
		st.ShardIdGenerator = 3
		env := newBalEnv()
		_, livelock, err := env.round(cfg, st)
		env.close(st)
		if err != nil {
			t.Fatalf("harness: %v", err)
		}
		if livelock {
			evid.KnownFinding("C19", kfLivelock+": zones a:{s0} b:{s1,s4} c:{s2,s3}, strict zone rule, rf 3, shards on [s0 s1 s2],[s0 s4 s3],[s0 s1 s3], s0 removed: every swap away from s0 is refused (unsatisfied anti-affinity), s0 stays the most loaded node and balanceHighestNode retries the refused swap forever")
		}
	}
}
