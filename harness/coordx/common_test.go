package coordx

import (
	"fmt"
	"sort"
	"strings"

	"github.com/emirpasic/gods/v2/sets/linkedhashset"
	"pgregory.net/rapid"

	"github.com/oxia-db/oxia/coordinator/model"
	"github.com/oxia-db/oxia/coordinator/policies"
	"github.com/oxia-db/oxia/coordinator/selectors"
	"github.com/oxia-db/oxia/coordinator/selectors/ensemble"
	"github.com/oxia-db/oxia/coordinator/selectors/single"
	"github.com/oxia-db/oxia/coordinator/utils"
)

// ---------------------------------------------------------------------------------------------
// servers, labels, policies
// ---------------------------------------------------------------------------------------------

var labelNames = []string{"zone", "rack", "type"}
var labelValues = []string{"a", "b", "c"}

// mkServer builds server number i. Named servers are identified by Name, unnamed ones by their
// internal address (model.Server.GetIdentifier); both forms exist in real configurations.
func mkServer(i int, named bool) model.Server {
	s := model.Server{Public: fmt.Sprintf("s%d:6648", i), Internal: fmt.Sprintf("s%d:6649", i)}
	if named {
		n := fmt.Sprintf("s%d", i)
		s.Name = &n
	}
	return s
}

func sid(s model.Server) string { return s.GetIdentifier() }

// short strips the port of unnamed identifiers: only used in descriptors and messages.
func short(id string) string { return strings.TrimSuffix(id, ":6649") }

func fmtEnsemble(e []model.Server) string {
	p := make([]string, len(e))
	for i, s := range e {
		p[i] = short(sid(s))
	}
	return "[" + strings.Join(p, " ") + "]"
}

func fmtIDs(ids []string) string {
	p := make([]string, len(ids))
	for i, s := range ids {
		p[i] = short(s)
	}
	return "[" + strings.Join(p, " ") + "]"
}

// drawLabels: nil = the server has no metadata entry at all; otherwise each label of the
// vocabulary is present with one of three values or missing.
func drawLabels(t *rapid.T) map[string]string {
	if rapid.IntRange(0, 9).Draw(t, "noMeta") == 0 {
		return nil
	}
	m := map[string]string{}
	for _, l := range labelNames {
		x := rapid.IntRange(0, 6).Draw(t, "lbl_"+l)
		if x == 0 {
			continue
		}
		m[l] = labelValues[(x-1)%3]
	}
	return m
}

func fmtLabels(m map[string]string) string {
	if m == nil {
		return "-"
	}
	var sb strings.Builder
	for _, l := range labelNames {
		if v, ok := m[l]; ok {
			sb.WriteString(l[:1] + "=" + v + ",")
		}
	}
	return "{" + strings.TrimSuffix(sb.String(), ",") + "}"
}

func drawRule(t *rapid.T) policies.AntiAffinity {
	n := rapid.IntRange(1, 2).Draw(t, "ruleLabels")
	first := rapid.IntRange(0, len(labelNames)-1).Draw(t, "ruleL0")
	labels := []string{labelNames[first]}
	if n == 2 {
		second := (first + rapid.IntRange(1, len(labelNames)-1).Draw(t, "ruleL1")) % len(labelNames)
		labels = append(labels, labelNames[second])
	}
	return policies.AntiAffinity{Labels: labels, Mode: policies.Strict}
}

// drawPolicy: none (nil or empty) / one strict rule with 1-2 labels / two strict rules.
func drawPolicy(t *rapid.T) *policies.Policies {
	switch rapid.IntRange(0, 5).Draw(t, "polKind") {
	case 0, 1:
		return nil
	case 2:
		return &policies.Policies{}
	case 3, 4:
		return &policies.Policies{AntiAffinities: []policies.AntiAffinity{drawRule(t)}}
	default:
		return &policies.Policies{AntiAffinities: []policies.AntiAffinity{drawRule(t), drawRule(t)}}
	}
}

func hasStrictRule(p *policies.Policies) bool {
	if p == nil {
		return false
	}
	for _, r := range p.AntiAffinities {
		if r.Mode == policies.Strict && len(r.Labels) > 0 {
			return true
		}
	}
	return false
}

func fmtPolicy(p *policies.Policies) string {
	if p == nil {
		return "nil"
	}
	if len(p.AntiAffinities) == 0 {
		return "empty"
	}
	parts := []string{}
	for _, r := range p.AntiAffinities {
		parts = append(parts, string(r.Mode)+"("+strings.Join(r.Labels, "+")+")")
	}
	return strings.Join(parts, "&")
}

// agreeOnAll: the two servers carry every label of the rule and the values are equal. A server
// that lacks one of the labels agrees with nobody (weakest reading of a multi-label rule).
func agreeOnAll(rule policies.AntiAffinity, md map[string]model.ServerMetadata, a, b string) bool {
	if len(rule.Labels) == 0 {
		return false
	}
	for _, l := range rule.Labels {
		va, oka := md[a].Labels[l]
		vb, okb := md[b].Labels[l]
		if !oka || !okb || va != vb {
			return false
		}
	}
	return true
}

// aaViolation returns "" when no two members of ids agree on all the labels of a strict rule.
func aaViolation(p *policies.Policies, md map[string]model.ServerMetadata, ids []string) string {
	if p == nil {
		return ""
	}
	for _, r := range p.AntiAffinities {
		if r.Mode != policies.Strict {
			continue
		}
		for i := 0; i < len(ids); i++ {
			for j := i + 1; j < len(ids); j++ {
				if agreeOnAll(r, md, ids[i], ids[j]) {
					return fmt.Sprintf("members %s%s and %s%s agree on every label of strict rule (%s)",
						short(ids[i]), fmtLabels(md[ids[i]].Labels), short(ids[j]), fmtLabels(md[ids[j]].Labels), strings.Join(r.Labels, "+"))
				}
			}
		}
	}
	return ""
}

func duplicateIn(ids []string) string {
	seen := map[string]bool{}
	for _, id := range ids {
		if seen[id] {
			return id
		}
		seen[id] = true
	}
	return ""
}

func idsOf(e []model.Server) []string {
	out := make([]string, len(e))
	for i, s := range e {
		out[i] = sid(s)
	}
	return out
}

// ---------------------------------------------------------------------------------------------
// the ensemble supplier the coordinator uses (coordinator.selectNewEnsemble is unexported; this is
// the same wiring over the exported selector, grouping helper and load-ratio algorithm)
// ---------------------------------------------------------------------------------------------

func nodesOf(cfg *model.ClusterConfig) (*linkedhashset.Set[string], map[string]model.Server) {
	nodes := linkedhashset.New[string]()
	idx := map[string]model.Server{}
	for _, s := range cfg.Servers {
		nodes.Add(sid(s))
		idx[sid(s)] = s
	}
	return nodes, idx
}

func ensembleContext(cfg *model.ClusterConfig, pol *policies.Policies, rf int, st *model.ClusterStatus) *ensemble.Context {
	nodes, _ := nodesOf(cfg)
	return &ensemble.Context{
		Candidates:         nodes,
		CandidatesMetadata: cfg.ServerMetadata,
		Policies:           pol,
		Status:             st,
		Replicas:           rf,
		LoadRatioSupplier: func() *model.Ratio {
			grouped, history := utils.GroupingShardsNodeByStatus(nodes, st)
			return single.DefaultShardsRank(&model.RatioParams{NodeShardsInfos: grouped, HistoryNodes: history})
		},
	}
}

func realSupplier(cfg *model.ClusterConfig, sel selectors.Selector[*ensemble.Context, []string], onRefused func(ns string, err error)) func(*model.NamespaceConfig, *model.ClusterStatus) ([]model.Server, error) {
	_, idx := nodesOf(cfg)
	return func(nc *model.NamespaceConfig, st *model.ClusterStatus) ([]model.Server, error) {
		ids, err := sel.Select(ensembleContext(cfg, nc.Policies, int(nc.ReplicationFactor), st))
		if err != nil {
			if onRefused != nil {
				onRefused(nc.Name, err)
			}
			return nil, err
		}
		out := make([]model.Server, 0, len(ids))
		for _, id := range ids {
			s, ok := idx[id]
			if !ok {
				return nil, fmt.Errorf("failed to find node %s", id)
			}
			out = append(out, s)
		}
		return out, nil
	}
}

// ---------------------------------------------------------------------------------------------
// hash-range partition oracle
// ---------------------------------------------------------------------------------------------

type hrange struct {
	id       int64
	min, max uint32
}

// partitionProblem returns "" when the ranges cover [0, 2^32-1] exactly once.
func partitionProblem(rs []hrange) string {
	if len(rs) == 0 {
		return "no active shard: the whole hash space [0..4294967295] belongs to nobody"
	}
	sort.Slice(rs, func(i, j int) bool {
		if rs[i].min != rs[j].min {
			return rs[i].min < rs[j].min
		}
		return rs[i].id < rs[j].id
	})
	expect := uint64(0)
	for _, r := range rs {
		if r.max < r.min {
			return fmt.Sprintf("shard %d has an inverted range [%d..%d]", r.id, r.min, r.max)
		}
		if uint64(r.min) > expect {
			return fmt.Sprintf("hash range [%d..%d] belongs to no shard (next shard %d starts at %d)", expect, uint64(r.min)-1, r.id, r.min)
		}
		if uint64(r.min) < expect {
			return fmt.Sprintf("shard %d range [%d..%d] overlaps the previous shard (hashes up to %d already covered)", r.id, r.min, r.max, expect-1)
		}
		expect = uint64(r.max) + 1
	}
	if expect != 1<<32 {
		return fmt.Sprintf("hash range [%d..4294967295] belongs to no shard", expect)
	}
	return ""
}

func fmtRanges(rs []hrange) string {
	sort.Slice(rs, func(i, j int) bool { return rs[i].min < rs[j].min })
	if len(rs) > 12 {
		return fmt.Sprintf("%d shards, first %d[%d..%d] last %d[%d..%d]", len(rs), rs[0].id, rs[0].min, rs[0].max, rs[len(rs)-1].id, rs[len(rs)-1].min, rs[len(rs)-1].max)
	}
	parts := make([]string, len(rs))
	for i, r := range rs {
		parts[i] = fmt.Sprintf("%d[%d..%d]", r.id, r.min, r.max)
	}
	return strings.Join(parts, " ")
}

func sortedKeys[V any](m map[string]V) []string {
	out := make([]string, 0, len(m))
	for k := range m {
		out = append(out, k)
	}
	sort.Strings(out)
	return out
}

func sortedShardIDs(m map[int64]model.ShardMetadata) []int64 {
	out := make([]int64, 0, len(m))
	for k := range m {
		out = append(out, k)
	}
	sort.Slice(out, func(i, j int) bool { return out[i] < out[j] })
	return out
}
