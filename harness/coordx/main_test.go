package coordx

import (
	"fmt"
	"strings"

	"github.com/oxia-db/oxia/common/process"

	"log/slog"
	"os"
	"testing"

	"verifharness/evid"
)

var tmpRoot string

func TestMain(m *testing.M) {
	slog.SetDefault(slog.New(slog.NewTextHandler(evid.WarnLog(), &slog.HandlerOptions{Level: slog.LevelWarn})))
	var err error
	base := os.Getenv("VERIF_TMP")
	if base == "" {
		base = os.TempDir()
	}
	tmpRoot, err = os.MkdirTemp(base, "coordx-")
	if err != nil {
		panic(err)
	}
	process.VerifPanicHandler = func(labels map[string]string, v any, stack []byte) {
		msg := fmt.Sprintf("%v (goroutine %v)", v, labels["oxia"])
		for _, l := range strings.Split(string(stack), "\n") {
			if strings.Contains(l, "github.com/oxia-db/oxia/coordinator") {
				msg += " at " + strings.TrimSpace(l)
				break
			}
		}
		select {
		case goroutinePanics <- msg:
		default:
		}
	}
	code := m.Run()
	evid.Flush()
	_ = os.RemoveAll(tmpRoot)
	os.Exit(code)
}


// goroutinePanics receives panics raised on goroutines that oxia started through process.DoWithLabels (the
// balancer round runs on one): the case that triggered it fails with its history instead of the process dying.
var goroutinePanics = make(chan string, 16)
