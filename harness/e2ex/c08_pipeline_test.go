package e2ex

// C08 end to end: "the leader write pipeline is order-preserving and does not fail spuriously". The asynchronous
// client pipelines writes (several batches in flight on one write stream) to a real standalone server. Writes to
// one key submitted in order by one client must be applied in that order: every result succeeds, version ids grow
// in submission order, the modification count grows by exactly one per put, and the final read returns the last
// value submitted.

import (
	"context"
	"fmt"
	"os"
	"strings"
	"testing"
	"time"

	"pgregory.net/rapid"

	"github.com/oxia-db/oxia/oxia"
	"github.com/oxia-db/oxia/server"

	"verifharness/evid"
)

var _ = server.NewTestConfig

func runC08E2E(t *rapid.T) {
	dir, err := os.MkdirTemp(tmpRoot, "c08e-")
	if err != nil {
		t.Fatalf("tmp: %v", err)
	}
	defer evid.RetireDir(dir)
	port, err := freePort()
	if err != nil {
		t.Skip("inconclusive: no free port")
	}
	drainPanics()
	srv := &e2eServer{dir: dir, port: port, n: uint32(rapid.IntRange(1, 2).Draw(t, "shards"))}
	if err := srv.start(); err != nil {
		t.Skip("inconclusive: standalone does not start: " + err.Error())
	}
	defer srv.shutdown()
	maxReq := rapid.IntRange(1, 6).Draw(t, "maxRequestsPerBatch")
	linger := time.Duration(rapid.IntRange(0, 2).Draw(t, "lingerMs")) * time.Millisecond
	cl, err := oxia.NewAsyncClient(srv.addr(), oxia.WithRequestTimeout(10*time.Second), oxia.WithMaxRequestsPerBatch(maxReq), oxia.WithBatchLinger(linger))
	if err != nil {
		t.Skip("inconclusive: client: " + err.Error())
	}
	defer cl.Close()
	nKeys := rapid.IntRange(1, 3).Draw(t, "nKeys")
	nOps := rapid.IntRange(5, 60).Draw(t, "nOps")
	type sub struct {
		key   string
		value string
		ch    <-chan oxia.PutResult
	}
	var subs []sub
	perKey := map[string][]int{}
	for i := 0; i < nOps; i++ {
		k := fmt.Sprintf("k/%d", rapid.IntRange(0, nKeys-1).Draw(t, "key"))
		v := fmt.Sprintf("v%d", i)
		// values of very different sizes: a large one closes its batch early, the next ones travel in later batches
		if rapid.IntRange(0, 9).Draw(t, "big") == 0 {
			v += strings.Repeat("x", rapid.IntRange(1000, 60000).Draw(t, "pad"))
		}
		subs = append(subs, sub{k, v, cl.Put(k, []byte(v))})
		perKey[k] = append(perKey[k], i)
	}
	desc := fmt.Sprintf("shards=%d maxRequestsPerBatch=%d linger=%v keys=%d ops=%d", srv.n, maxReq, linger, nKeys, nOps)
	res := make([]oxia.PutResult, len(subs))
	for i, s := range subs {
		select {
		case r := <-s.ch:
			res[i] = r
		case <-time.After(20 * time.Second):
			t.Skip("inconclusive: a put did not complete within 20 s")
		}
		if res[i].Err != nil {
			t.Fatalf("C08: put #%d of %q failed on a healthy server: %v; %s", i, s.key, res[i].Err, desc)
		}
	}
	for k, idxs := range perKey {
		for j := 1; j < len(idxs); j++ {
			a, b := res[idxs[j-1]], res[idxs[j]]
			if b.Version.VersionId <= a.Version.VersionId {
				t.Fatalf("C08: key %q: put #%d (submitted after #%d) got version id %d, not above %d: the two were applied out of submission order; %s",
					k, idxs[j], idxs[j-1], b.Version.VersionId, a.Version.VersionId, desc)
			}
			if b.Version.ModificationsCount != a.Version.ModificationsCount+1 {
				t.Fatalf("C08: key %q: put #%d has modification count %d after %d; %s", k, idxs[j], b.Version.ModificationsCount, a.Version.ModificationsCount, desc)
			}
		}
		last := subs[idxs[len(idxs)-1]]
		ctx, cancel := context.WithTimeout(context.Background(), 10*time.Second)
		var got oxia.GetResult
		select {
		case got = <-cl.Get(k):
		case <-ctx.Done():
		}
		cancel()
		if got.Err != nil || string(got.Value) != last.value {
			t.Fatalf("C08: key %q holds a value of %d bytes (err %v), the last value submitted has %d bytes (%q...): the writes were not applied in submission order; %s",
				k, len(got.Value), got.Err, len(last.value), last.value[:min(12, len(last.value))], desc)
		}
	}
	if ps := drainPanics(); len(ps) > 0 {
		t.Skip("inconclusive: a server goroutine panicked: " + ps[0])
	}
	multi := false
	for _, idxs := range perKey {
		if len(idxs) > maxReq {
			multi = true
		}
	}
	var labels []string
	if multi {
		labels = append(labels, "key_written_across_several_batches")
	}
	evid.Case("C08", multi, "e2e pipeline "+desc, labels...)
}

func TestC08_E2E(t *testing.T) { rapid.Check(t, runC08E2E) }
