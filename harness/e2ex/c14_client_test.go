package e2ex

// C14 end to end: the real client library (oxia/sessions.go: session creation on the first ephemeral put,
// heartbeats, close) against a real standalone server. "Ephemeral records live and die with their session, and
// only they do": while the client that created them is open they exist (also beyond one session timeout, also
// across a server restart); when it is closed they disappear and nothing else does.

import (
	"context"
	"sync"
	"errors"
	"fmt"
	"net"
	"os"
	"path/filepath"
	"sort"
	"strings"
	"testing"
	"time"

	"pgregory.net/rapid"

	"github.com/oxia-db/oxia/oxia"
	"github.com/oxia-db/oxia/server"

	"verifharness/evid"
)

func freePort() (int, error) {
	l, err := net.Listen("tcp", "127.0.0.1:0")
	if err != nil {
		return 0, err
	}
	defer l.Close()
	return l.Addr().(*net.TCPAddr).Port, nil
}

type e2eServer struct {
	dir  string
	port int
	n    uint32
	s    *server.Standalone
	rl   *relay
}

// restart stops the server and starts it again over the same directories; clients are cut off by the relay for the
// whole time and let in again only when the server is completely up.
func (e *e2eServer) restart() error {
	e.rl.pause()
	time.Sleep(30 * time.Millisecond) // let the read goroutines of the server finish closing their iterators
	e.stop()
	if err := e.startServer(); err != nil {
		return err
	}
	e.rl.resume()
	return nil
}

func (e *e2eServer) startServer() error {
	cfg := server.NewTestConfig(e.dir)
	cfg.DataDir = filepath.Join(e.dir, "db")
	cfg.WalDir = filepath.Join(e.dir, "wal")
	cfg.PublicServiceAddr = fmt.Sprintf("127.0.0.1:%d", e.port)
	cfg.NumShards = e.n
	cfg.NotificationsRetentionTime = time.Hour
	var err error
	e.s = nil
	for i := 0; i < 100; i++ {
		var s *server.Standalone
		s, err = server.NewStandalone(cfg)
		if err == nil {
			e.s = s
			return nil
		}
		time.Sleep(50 * time.Millisecond) // the port of the previous incarnation may still be closing
	}
	return err
}

func (e *e2eServer) shutdown() {
	if e.rl != nil {
		e.rl.close()
	}
	time.Sleep(30 * time.Millisecond)
	e.stop()
}

// stop closes the server if it is running.
func (e *e2eServer) stop() {
	if e.s != nil {
		_ = e.s.Close()
		e.s = nil
	}
}

// start brings the server up and puts the relay in front of it.
func (e *e2eServer) start() error {
	if err := e.startServer(); err != nil {
		return err
	}
	rl, err := newRelay(fmt.Sprintf("127.0.0.1:%d", e.port))
	if err != nil {
		e.stop()
		return err
	}
	e.rl = rl
	return nil
}

// addr is what clients connect to: the relay.
func (e *e2eServer) addr() string { return e.rl.addr() }

func bg() (context.Context, context.CancelFunc) {
	return context.WithTimeout(context.Background(), 10*time.Second)
}

func runC14Client(t *rapid.T) {
	dir, err := os.MkdirTemp(tmpRoot, "c14c-")
	if err != nil {
		t.Fatalf("tmp: %v", err)
	}
	defer evid.RetireDir(dir)
	port, err := freePort()
	if err != nil {
		t.Skip("inconclusive: no free port")
	}
	srv := &e2eServer{dir: dir, port: port, n: uint32(rapid.IntRange(1, 3).Draw(t, "shards"))}
	if err := srv.start(); err != nil {
		t.Skip("inconclusive: standalone does not start: " + err.Error())
	}
	defer srv.shutdown()
	drainPanics()

	timeout := time.Duration(rapid.SampledFrom([]int{2000, 2500, 3000, 4000, 6000}).Draw(t, "sessionTimeoutMs")) * time.Millisecond
	var hist []string
	logf := func(f string, a ...any) { hist = append(hist, fmt.Sprintf(f, a...)) }
	logf("server shards=%d; client A session timeout %v", srv.n, timeout)

	a, err := oxia.NewSyncClient(srv.addr(), oxia.WithSessionTimeout(timeout), oxia.WithRequestTimeout(5*time.Second), oxia.WithIdentity("A"))
	if err != nil {
		t.Skip("inconclusive: client A: " + err.Error())
	}
	aOpen := true
	defer func() {
		if aOpen {
			_ = a.Close()
		}
	}()
	b, err := oxia.NewSyncClient(srv.addr(), oxia.WithRequestTimeout(5*time.Second), oxia.WithIdentity("B"))
	if err != nil {
		t.Skip("inconclusive: client B: " + err.Error())
	}
	defer b.Close()

	// B watches the changes: the end of A's sessions must be announced like any other deletion (C17)
	ns, err := b.GetNotifications()
	if err != nil {
		t.Skip("inconclusive: GetNotifications: " + err.Error())
	}
	var nmu sync.Mutex
	deletedSeen := map[string]int{}
	go func() {
		for n := range ns.Ch() {
			if n.Type == oxia.KeyDeleted {
				nmu.Lock()
				deletedSeen[n.Key]++
				nmu.Unlock()
			}
		}
	}()
	defer ns.Close()
	// content: plain records by B, ephemeral ones by A (spread over the shards by their keys)
	plain := map[string]bool{}
	eph := map[string]bool{}
	nPlain := rapid.IntRange(0, 3).Draw(t, "nPlain")
	for i := 0; i < nPlain; i++ {
		k := fmt.Sprintf("plain/%d/%s", i, rapid.StringMatching("[a-c]{1,3}").Draw(t, "pk"))
		ctx, c := bg()
		_, _, err := b.Put(ctx, k, []byte("p"))
		c()
		if err != nil {
			t.Fatalf("C14: plain put failed: %v; history=%v", err, hist)
		}
		plain[k] = true
	}
	nEph := rapid.IntRange(1, 4).Draw(t, "nEph")
	for i := 0; i < nEph; i++ {
		k := fmt.Sprintf("eph/%d/%s", i, rapid.StringMatching("[a-c]{1,3}").Draw(t, "ek"))
		ctx, c := bg()
		_, v, err := a.Put(ctx, k, []byte("e"), oxia.Ephemeral())
		c()
		if err != nil {
			t.Fatalf("C14: ephemeral put failed: %v; history=%v", err, hist)
		}
		if !v.Ephemeral {
			t.Fatalf("C14: the version of ephemeral record %q is not marked ephemeral: %+v; history=%v", k, v, hist)
		}
		eph[k] = true
	}
	logf("plain=%v ephemeral=%v", keysOf(plain), keysOf(eph))
	// A also overwrites one of the plain records as ephemeral, or B overwrites an ephemeral one as plain (take-over)
	switch rapid.IntRange(0, 3).Draw(t, "takeover") {
	case 0:
		for k := range plain {
			ctx, c := bg()
			_, _, err := a.Put(ctx, k, []byte("e2"), oxia.Ephemeral())
			c()
			if err != nil {
				t.Fatalf("C14: ephemeral overwrite failed: %v", err)
			}
			delete(plain, k)
			eph[k] = true
			logf("A takes %q over as ephemeral", k)
			break
		}
	case 1:
		for _, k := range keysOf(eph) {
			ctx, c := bg()
			_, _, err := b.Put(ctx, k, []byte("p2"))
			c()
			if err != nil {
				t.Fatalf("C14: plain overwrite failed: %v", err)
			}
			delete(eph, k)
			plain[k] = true
			logf("B takes %q over as plain", k)
			break
		}
	}

	listAll := func() ([]string, error) {
		ctx, c := bg()
		defer c()
		ks, err := b.List(ctx, "a/a/a", "z/z/z") // all user keys of this test have exactly two slashes
		sort.Strings(ks)
		return ks, err
	}
	expectAll := func(where string, withEph bool) {
		var want []string
		for k := range plain {
			want = append(want, k)
		}
		if withEph {
			for k := range eph {
				want = append(want, k)
			}
		}
		sort.Strings(want)
		got, err := listAll()
		if err != nil {
			t.Fatalf("C14: list failed %s: %v; history=%v", where, err, hist)
		}
		if strings.Join(got, "\x00") != strings.Join(want, "\x00") {
			t.Fatalf("C14: %s the store holds %q, expected %q (plain=%q ephemeral of the open client=%q); history=%v", where, got, want, keysOf(plain), keysOf(eph), hist)
		}
	}
	expectAll("right after the writes", true)

	// the client stays open for longer than its session timeout; optionally the server restarts in between
	hold := timeout + time.Duration(rapid.IntRange(300, 1500).Draw(t, "extraHoldMs"))*time.Millisecond
	restart := rapid.IntRange(0, 3).Draw(t, "restart") == 0
	start := time.Now()
	if restart {
		time.Sleep(time.Duration(rapid.IntRange(100, 900).Draw(t, "restartAtMs")) * time.Millisecond)
		logf("server restart at %v", time.Since(start).Round(time.Millisecond))
		if err := srv.restart(); err != nil {
			t.Skip("inconclusive: standalone does not restart: " + err.Error())
		}
		start = time.Now() // the restarted server re-arms the session timers
	}
	if w := hold - time.Since(start); w > 0 {
		time.Sleep(w)
	}
	held := time.Since(start)
	logf("client A held open for %v", held.Round(time.Millisecond))
	expectAll(fmt.Sprintf("with client A open for %v (session timeout %v),", held.Round(time.Millisecond), timeout), true)

	// closing the client ends its sessions: its ephemeral records disappear, nothing else does
	if err := a.Close(); err != nil {
		logf("A.Close: %v", err)
	}
	aOpen = false
	deadline := time.Now().Add(5 * time.Second)
	for {
		got, err := listAll()
		if err == nil && len(got) == len(plain) {
			break
		}
		if time.Now().After(deadline) {
			break
		}
		time.Sleep(20 * time.Millisecond)
	}
	expectAll("after client A was closed,", false)
	for k := range eph {
		ctx, c := bg()
		_, _, _, err := b.Get(ctx, k)
		c()
		if !errors.Is(err, oxia.ErrKeyNotFound) {
			t.Fatalf("C14: ephemeral record %q still readable after its client was closed: err=%v; history=%v", k, err, hist)
		}
	}
	if ps := drainPanics(); len(ps) > 0 {
		t.Skip("inconclusive: a server goroutine panicked: " + ps[0])
	}
	// every ephemeral record that disappeared with the session was announced as deleted, exactly once; no plain one
	ndl := time.Now().Add(5 * time.Second)
	for time.Now().Before(ndl) {
		nmu.Lock()
		n := len(deletedSeen)
		nmu.Unlock()
		if n >= len(eph) {
			break
		}
		time.Sleep(10 * time.Millisecond)
	}
	nmu.Lock()
	for k := range eph {
		if deletedSeen[k] != 1 {
			nmu.Unlock()
			t.Fatalf("C14: the deletion of ephemeral record %q at the end of its session was announced %d times to a subscriber (C17); history=%v", k, deletedSeen[k], hist)
		}
	}
	for k := range plain {
		if deletedSeen[k] != 0 {
			nmu.Unlock()
			t.Fatalf("C14: a deletion of the plain record %q was announced although it still exists; history=%v", k, hist)
		}
	}
	nmu.Unlock()
	var labels []string
	if restart {
		labels = append(labels, "server_restart_while_session_open")
	}
	if timeout <= 3*time.Second {
		labels = append(labels, "short_session_timeout")
	}
	if srv.n > 1 {
		labels = append(labels, "several_shards")
	}
	evid.Case("C14", true, "client "+strings.Join(hist, "; "), labels...)
}

func keysOf(m map[string]bool) []string {
	var out []string
	for k := range m {
		out = append(out, k)
	}
	sort.Strings(out)
	return out
}

func TestC14_ClientSessions(t *testing.T) {
	rapid.Check(t, runC14Client)
}
