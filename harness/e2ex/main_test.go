package e2ex

import (


	"io"
	"log/slog"
	"os"
	"testing"

	"verifharness/evid"
)

var tmpRoot string

func TestMain(m *testing.M) {
	slog.SetDefault(slog.New(slog.NewTextHandler(io.Discard, nil)))
	var err error
	base := os.Getenv("VERIF_TMP")
	if base == "" {
		base = os.TempDir()
	}
	tmpRoot, err = os.MkdirTemp(base, "e2ex-")
	if err != nil {
		panic(err)
	}
	code := m.Run()
	evid.Flush()
	_ = os.RemoveAll(tmpRoot)
	os.Exit(code)
}


