package e2ex

import (
	"fmt"

	"github.com/oxia-db/oxia/common/process"

	"log/slog"
	"os"
	"testing"

	"verifharness/evid"
)

var tmpRoot string

func TestMain(m *testing.M) {
	slog.SetDefault(slog.New(slog.NewTextHandler(evid.WarnLog(), &slog.HandlerOptions{Level: slog.LevelWarn})))
	var err error
	base := os.Getenv("VERIF_TMP")
	if base == "" {
		base = os.TempDir()
	}
	tmpRoot, err = os.MkdirTemp(base, "e2ex-")
	if err != nil {
		panic(err)
	}
	// A panic on a goroutine that oxia started through process.DoWithLabels (under the verif tag) is handed to the
	// harness instead of killing the process. The one seen here is a close race of the server (a range-scan goroutine
	// closes its Pebble iterator after the database was closed by a restart): the case is abandoned as inconclusive.
	process.VerifPanicHandler = func(labels map[string]string, v any, stack []byte) {
		select {
		case goroutinePanics <- fmt.Sprintf("%v (goroutine %v)", v, labels["oxia"]):
		default:
		}
	}
	code := m.Run()
	evid.Flush()
	_ = os.RemoveAll(tmpRoot)
	os.Exit(code)
}

var goroutinePanics = make(chan string, 64)

// drainPanics returns the panics caught since the last call.
func drainPanics() []string {
	var out []string
	for {
		select {
		case p := <-goroutinePanics:
			out = append(out, p)
		default:
			return out
		}
	}
}
