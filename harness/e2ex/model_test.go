package e2ex

// End-to-end conformance: the real synchronous client against a real standalone server with 1-4 shards, checked
// against the sequential reference model (harness/model), one model per shard. Every call goes through the whole
// stack: option handling, routing by partition key or key, batching, the public RPC server, the leader's write
// path, and - for List / RangeScan / comparison Get without a partition key - the client's fan-out and merge over
// real per-shard data. Run once with focus C12 (write semantics through the client) and once with focus C20
// (reads: union, global order, no loss or duplication).

import (
	"context"
	"errors"
	"fmt"
	"math"
	"os"
	"sort"
	"strings"
	"sync"
	"testing"
	"time"

	"github.com/zeebo/xxh3"
	"pgregory.net/rapid"

	"github.com/oxia-db/oxia/oxia"
	"github.com/oxia-db/oxia/proto"

	"verifharness/evid"
	"verifharness/gen"
	"verifharness/model"
)

type shardRange struct {
	id       int64
	min, max uint32
}

// standaloneRanges follows the arithmetic of common/sharding.GenerateShards (checked by C18).
func standaloneRanges(n uint32) []shardRange {
	bucket := (math.MaxUint32 / n) + 1
	var out []shardRange
	for i := uint32(0); i < n; i++ {
		lo := i * bucket
		hi := lo + bucket - 1
		if i == n-1 {
			hi = math.MaxUint32
		}
		out = append(out, shardRange{int64(i), lo, hi})
	}
	return out
}

func shardOf(rs []shardRange, routingKey string) int64 {
	h := uint32(xxh3.HashString(routingKey))
	for _, r := range rs {
		if h >= r.min && h <= r.max {
			return r.id
		}
	}
	return -1
}

func p64(v int64) *int64 { return &v }

func statusOfErr(err error) (proto.Status, bool) {
	switch {
	case err == nil:
		return proto.Status_OK, true
	case errors.Is(err, oxia.ErrUnexpectedVersionId):
		return proto.Status_UNEXPECTED_VERSION_ID, true
	case errors.Is(err, oxia.ErrKeyNotFound):
		return proto.Status_KEY_NOT_FOUND, true
	}
	return 0, false
}

func toProtoVersion(v oxia.Version) *proto.Version {
	pv := &proto.Version{VersionId: v.VersionId, ModificationsCount: v.ModificationsCount, CreatedTimestamp: v.CreatedTimestamp, ModifiedTimestamp: v.ModifiedTimestamp}
	if v.Ephemeral {
		pv.SessionId = p64(v.SessionId)
	}
	if v.ClientIdentity != "" {
		ci := v.ClientIdentity
		pv.ClientIdentity = &ci
	}
	return pv
}

type e2eCase struct {
	t      *rapid.T
	focus  string
	cl     oxia.SyncClient
	ranges []shardRange
	models map[int64]*model.Shard
	hist   []string
	pool   []string
	pks    []string
	// notifications the application must receive, per key, in order: "type:version" ("range:end" for range deletes)
	expectN map[string][]string
	nExpect int
	// shards on which a key was changed: the order of notifications is defined per shard only
	keyShards map[string]map[int64]bool
}

func (c *e2eCase) expectNotif(sh int64, key, what string) {
	c.expectN[key] = append(c.expectN[key], what)
	c.nExpect++
	if c.keyShards[key] == nil {
		c.keyShards[key] = map[int64]bool{}
	}
	c.keyShards[key][sh] = true
}

func (c *e2eCase) expectFromEffects(sh int64, eff *model.Effects) {
	for k, v := range eff.Written {
		if eff.WrittenMC[k] == 0 {
			c.expectNotif(sh, k, fmt.Sprintf("created:%d", v))
		} else {
			c.expectNotif(sh, k, fmt.Sprintf("modified:%d", v))
		}
	}
	for k := range eff.Removed {
		covered := false
		for _, r := range eff.Ranges {
			if model.CompareKeys(k, r[0]) >= 0 && model.CompareKeys(k, r[1]) < 0 {
				covered = true
			}
		}
		if !covered {
			c.expectNotif(sh, k, "deleted")
		}
	}
}

func (c *e2eCase) logf(f string, a ...any) { c.hist = append(c.hist, fmt.Sprintf(f, a...)) }

func (c *e2eCase) fail(f string, a ...any) {
	c.t.Fatalf("%s: %s; history=%v", c.focus, fmt.Sprintf(f, a...), c.hist)
}

// routing: with a partition key the operation goes to the shard of the partition key, otherwise to the key's
func (c *e2eCase) route(key string, pk *string) int64 {
	if pk != nil {
		return shardOf(c.ranges, *pk)
	}
	return shardOf(c.ranges, key)
}

func (c *e2eCase) drawPK() *string {
	if rapid.IntRange(0, 2).Draw(c.t, "usePK") == 0 {
		pk := c.pks[rapid.IntRange(0, len(c.pks)-1).Draw(c.t, "pk")]
		return &pk
	}
	return nil
}

func (c *e2eCase) put() {
	t := c.t
	key := c.pool[rapid.IntRange(0, len(c.pool)-1).Draw(t, "key")]
	pk := c.drawPK()
	value := []byte(fmt.Sprintf("v%d", len(c.hist)))
	req := &proto.PutRequest{Key: key, Value: value, PartitionKey: pk}
	var opts []oxia.PutOption
	if pk != nil {
		opts = append(opts, oxia.PartitionKey(*pk))
	}
	sh := c.route(key, pk)
	m := c.models[sh]
	switch rapid.IntRange(0, 5).Draw(t, "cond") {
	case 0:
		req.ExpectedVersionId = p64(-1)
		opts = append(opts, oxia.ExpectedRecordNotExists())
	case 1:
		v := int64(rapid.IntRange(0, 12).Draw(t, "ev"))
		if r := m.Recs[key]; r != nil && rapid.Bool().Draw(t, "evCurrent") {
			v = r.VersionId
		}
		req.ExpectedVersionId = p64(v)
		opts = append(opts, oxia.ExpectedVersionId(v))
	}
	if rapid.IntRange(0, 3).Draw(t, "idx") == 0 {
		sk := gen.Key().Draw(t, "sk")
		req.SecondaryIndexes = []*proto.SecondaryIndex{{IndexName: "idx", SecondaryKey: sk}}
		opts = append(opts, oxia.SecondaryIndex("idx", sk))
	}
	if pk != nil && req.ExpectedVersionId == nil && rapid.IntRange(0, 3).Draw(t, "seq") == 0 {
		key = "sq" + *pk
		req.Key = key
		d := []uint64{uint64(rapid.IntRange(1, 3).Draw(t, "d0")), uint64(rapid.IntRange(0, 3).Draw(t, "d1"))}
		req.SequenceKeyDelta = d
		opts = append(opts, oxia.SequenceKeysDeltas(d...))
	}
	ctx, cancel := bg()
	gotKey, ver, err := c.cl.Put(ctx, key, value, opts...)
	cancel()
	c.logf("put(%s) -> key=%q v=%d err=%v", gen.FormatRequest(&proto.WriteRequest{Puts: []*proto.PutRequest{req}}), gotKey, ver.VersionId, err)
	st, known := statusOfErr(err)
	if !known {
		c.fail("put failed with an error that is not an operation status: %v", err)
	}
	resp := &proto.PutResponse{Status: st}
	if st == proto.Status_OK {
		resp.Version = toProtoVersion(ver)
		if len(req.SequenceKeyDelta) > 0 {
			resp.Key = &gotKey
		} else if gotKey != key {
			c.fail("put of %q reported the inserted key %q", key, gotKey)
		}
	}
	eff, err := m.Apply(&proto.WriteRequest{Puts: []*proto.PutRequest{req}}, &proto.WriteResponse{Puts: []*proto.PutResponse{resp}}, ver.ModifiedTimestamp)
	if err != nil {
		c.fail("shard %d: %v", sh, err)
	}
	c.expectFromEffects(sh, eff)
}

func (c *e2eCase) del() {
	t := c.t
	key := c.pool[rapid.IntRange(0, len(c.pool)-1).Draw(t, "key")]
	pk := c.drawPK()
	sh := c.route(key, pk)
	m := c.models[sh]
	req := &proto.DeleteRequest{Key: key}
	var opts []oxia.DeleteOption
	if pk != nil {
		opts = append(opts, oxia.PartitionKey(*pk))
	}
	if rapid.IntRange(0, 2).Draw(t, "cond") == 0 {
		v := int64(rapid.IntRange(0, 12).Draw(t, "ev"))
		if r := m.Recs[key]; r != nil && rapid.Bool().Draw(t, "evCurrent") {
			v = r.VersionId
		}
		req.ExpectedVersionId = p64(v)
		opts = append(opts, oxia.ExpectedVersionId(v))
	}
	ctx, cancel := bg()
	err := c.cl.Delete(ctx, key, opts...)
	cancel()
	c.logf("delete(%q pk=%v ev=%v) -> %v", key, strOf(pk), i64Of(req.ExpectedVersionId), err)
	st, known := statusOfErr(err)
	if !known {
		c.fail("delete failed with an error that is not an operation status: %v", err)
	}
	eff, err := m.Apply(&proto.WriteRequest{Deletes: []*proto.DeleteRequest{req}}, &proto.WriteResponse{Deletes: []*proto.DeleteResponse{{Status: st}}}, 0)
	if err != nil {
		c.fail("shard %d: %v", sh, err)
	}
	c.expectFromEffects(sh, eff)
}

func (c *e2eCase) bounds() (string, string) {
	t := c.t
	a, b := gen.Key().Draw(t, "lo"), gen.Key().Draw(t, "hi")
	if rapid.IntRange(0, 3).Draw(t, "wide") == 0 {
		a, b = "", "~~/~~/~~/~~/~~/~~/~~"
	}
	if model.CompareKeys(a, b) > 0 {
		a, b = b, a
	}
	return a, b
}

func (c *e2eCase) deleteRange() {
	a, b := c.bounds()
	if strings.HasPrefix(a, "_") || a == "" {
		a = "-" // stay clear of the reserved records
	}
	if model.CompareKeys(a, b) >= 0 {
		return
	}
	pk := c.drawPK()
	var opts []oxia.DeleteRangeOption
	if pk != nil {
		opts = append(opts, oxia.PartitionKey(*pk))
	}
	ctx, cancel := bg()
	err := c.cl.DeleteRange(ctx, a, b, opts...)
	cancel()
	c.logf("deleteRange[%q,%q) pk=%v -> %v", a, b, strOf(pk), err)
	if err != nil {
		c.fail("deleteRange failed: %v", err)
	}
	req := &proto.WriteRequest{DeleteRanges: []*proto.DeleteRangeRequest{{StartInclusive: a, EndExclusive: b}}}
	resp := &proto.WriteResponse{DeleteRanges: []*proto.DeleteRangeResponse{{Status: proto.Status_OK}}}
	for sh, m := range c.models {
		if pk != nil && sh != shardOf(c.ranges, *pk) {
			continue
		}
		if _, err := m.Apply(req, resp, 0); err != nil {
			c.fail("shard %d: %v", sh, err)
		}
		// one range notification per shard the request was applied on
		c.expectNotif(sh, a, "range:"+b)
	}
}

// candidates lists (shard, key) of the user records visible to a read: one shard with a partition key, all otherwise.
func (c *e2eCase) shardsFor(pk *string) []int64 {
	if pk != nil {
		return []int64{shardOf(c.ranges, *pk)}
	}
	var out []int64
	for _, r := range c.ranges {
		out = append(out, r.id)
	}
	return out
}

func (c *e2eCase) get() {
	t := c.t
	key := c.pool[rapid.IntRange(0, len(c.pool)-1).Draw(t, "key")]
	if rapid.IntRange(0, 3).Draw(t, "otherKey") == 0 {
		key = gen.Key().Draw(t, "k")
	}
	cmp := rapid.SampledFrom([]proto.KeyComparisonType{proto.KeyComparisonType_EQUAL, proto.KeyComparisonType_EQUAL, proto.KeyComparisonType_FLOOR,
		proto.KeyComparisonType_CEILING, proto.KeyComparisonType_LOWER, proto.KeyComparisonType_HIGHER}).Draw(t, "cmp")
	pk := c.drawPK()
	var opts []oxia.GetOption
	switch cmp {
	case proto.KeyComparisonType_FLOOR:
		opts = append(opts, oxia.ComparisonFloor())
	case proto.KeyComparisonType_CEILING:
		opts = append(opts, oxia.ComparisonCeiling())
	case proto.KeyComparisonType_LOWER:
		opts = append(opts, oxia.ComparisonLower())
	case proto.KeyComparisonType_HIGHER:
		opts = append(opts, oxia.ComparisonHigher())
	}
	if pk != nil {
		opts = append(opts, oxia.PartitionKey(*pk))
	}
	// expectation: an exact get looks at the shard the key routes to; a comparison get without partition key looks
	// at every shard and takes the best candidate
	var shards []int64
	if cmp == proto.KeyComparisonType_EQUAL {
		shards = []int64{c.route(key, pk)}
	} else {
		shards = c.shardsFor(pk)
	}
	type cand struct {
		key string
		sh  int64
	}
	var cands []cand
	for _, sh := range shards {
		if k, ok := c.models[sh].Get(key, cmp); ok {
			cands = append(cands, cand{k, sh})
		}
	}
	ctx, cancel := bg()
	gotKey, gotVal, gotVer, err := c.cl.Get(ctx, key, opts...)
	cancel()
	c.logf("get(%q %v pk=%v) -> %q err=%v", key, cmp, strOf(pk), gotKey, err)
	if cmp != proto.KeyComparisonType_EQUAL {
		// Comparison reads are not filtered by the server: where one of oxia's own records is the nearest key of a
		// consulted shard, the shard answers with that record or fails decoding it (no listed property covers this).
		// Such a read is outside the domain: per shard, the span between the asked key and the shard's nearest user
		// record must be free of reserved records.
		for _, sh := range shards {
			lo, hi := key, key
			k, ok := c.models[sh].Get(key, cmp)
			switch cmp {
			case proto.KeyComparisonType_FLOOR, proto.KeyComparisonType_LOWER:
				lo = ""
				if ok {
					lo = k
				}
			default:
				hi = "\xff\xff/\xff/\xff/\xff/\xff/\xff/\xff/\xff/\xff"
				if ok {
					hi = k
				}
			}
			if spansReserved(lo, hi+"\x00") {
				if err != nil && !errors.Is(err, oxia.ErrKeyNotFound) && !strings.Contains(err.Error(), "Deserialize") {
					c.fail("get(%q,%v,pk=%v) failed with %v", key, cmp, strOf(pk), err)
				}
				return
			}
		}
	}
	if len(cands) == 0 {
		if !errors.Is(err, oxia.ErrKeyNotFound) {
			// the reserved records are visible to comparison reads (outside the listed properties): accept them
			if err == nil && model.IsInternal(gotKey) {
				return
			}
			c.fail("get(%q,%v,pk=%v) = %q,%v; no shard holds a candidate (ErrKeyNotFound expected)", key, cmp, strOf(pk), gotKey, err)
		}
		return
	}
	best := cands[0]
	for _, x := range cands[1:] {
		switch cmp {
		case proto.KeyComparisonType_FLOOR, proto.KeyComparisonType_LOWER:
			if model.CompareKeys(x.key, best.key) > 0 {
				best = x
			}
		default:
			if model.CompareKeys(x.key, best.key) < 0 {
				best = x
			}
		}
	}
	if err != nil {
		c.fail("get(%q,%v,pk=%v) failed with %v; the model expects %q (shard %d)", key, cmp, strOf(pk), err, best.key, best.sh)
	}
	if model.IsInternal(gotKey) {
		return // a reserved record is nearer than any user record (outside the listed properties)
	}
	if gotKey != best.key {
		c.fail("get(%q,%v,pk=%v) returned %q, the best candidate over shards %v is %q (candidates %v)", key, cmp, strOf(pk), gotKey, shards, best.key, cands)
	}
	// the same key may live in several shards (put with different partition keys): any holder of the best key
	okAny := false
	var lastErr error
	for _, x := range cands {
		if x.key == best.key {
			if err := c.models[x.sh].CheckRecord(gotKey, gotVal, true, toProtoVersion(gotVer)); err == nil {
				okAny = true
			} else {
				lastErr = err
			}
		}
	}
	if !okAny {
		c.fail("get(%q,%v,pk=%v): %v", key, cmp, strOf(pk), lastErr)
	}
}

// spansReserved: does [a,b) contain a key of the reserved prefix at some depth? Reads over such ranges return (or
// fail on) oxia's own records, which no listed property covers; writes are covered (C13).
func spansReserved(a, b string) bool {
	for d := 1; d <= 8; d++ {
		lo := "__oxia" + strings.Repeat("/", d)
		hi := "__oxia" + strings.Repeat("/\xff\xff", d)
		if model.CompareKeys(a, hi) <= 0 && model.CompareKeys(b, lo) > 0 {
			return true
		}
	}
	return false
}

func (c *e2eCase) listAndScan() {
	a, b := c.bounds()
	for i := 0; i < 6 && spansReserved(a, b); i++ {
		a, b = c.bounds()
	}
	if spansReserved(a, b) {
		return
	}
	pk := c.drawPK()
	var lopts []oxia.ListOption
	var sopts []oxia.RangeScanOption
	if pk != nil {
		lopts = append(lopts, oxia.PartitionKey(*pk))
		sopts = append(sopts, oxia.PartitionKey(*pk))
	}
	var want []string
	for _, sh := range c.shardsFor(pk) {
		want = append(want, c.models[sh].KeysInRange(a, b)...)
	}
	sort.Slice(want, func(i, j int) bool { return model.CompareKeys(want[i], want[j]) < 0 })
	ctx, cancel := bg()
	got, err := c.cl.List(ctx, a, b, lopts...)
	cancel()
	c.logf("list[%q,%q) pk=%v -> %d keys err=%v", a, b, strOf(pk), len(got), err)
	if err != nil {
		c.fail("list failed: %v", err)
	}
	var user []string
	for _, k := range got {
		if !model.IsInternal(k) {
			user = append(user, k)
		}
	}
	// list: the multiset union of the shards (order across shards is not specified)
	gs := append([]string(nil), user...)
	sort.Slice(gs, func(i, j int) bool { return model.CompareKeys(gs[i], gs[j]) < 0 })
	if strings.Join(gs, "\x00") != strings.Join(want, "\x00") {
		c.fail("list[%q,%q) pk=%v returned %q, the shards hold %q", a, b, strOf(pk), user, want)
	}
	// range scan: same records, in global key order
	ctx2, cancel2 := context.WithTimeout(context.Background(), 10*time.Second)
	defer cancel2()
	var scanned []string
	for r := range c.cl.RangeScan(ctx2, a, b, sopts...) {
		if r.Err != nil {
			c.fail("range scan failed: %v", r.Err)
		}
		if model.IsInternal(r.Key) {
			continue
		}
		scanned = append(scanned, r.Key)
	}
	if strings.Join(scanned, "\x00") != strings.Join(want, "\x00") {
		c.fail("rangeScan[%q,%q) pk=%v delivered %q, expected %q (global key order)", a, b, strOf(pk), scanned, want)
	}
}

// indexQueries: List / RangeScan over the secondary index "idx" (C15 through the client): the primary keys of
// exactly the live records that declare a secondary key in the range, over the consulted shards, as a multiset
// (the order of a multi-shard index scan is not specified by the listed properties).
func (c *e2eCase) indexQueries() {
	a, b := c.bounds()
	pk := c.drawPK()
	lopts := []oxia.ListOption{oxia.UseIndex("idx")}
	sopts := []oxia.RangeScanOption{oxia.UseIndex("idx")}
	if pk != nil {
		lopts = append(lopts, oxia.PartitionKey(*pk))
		sopts = append(sopts, oxia.PartitionKey(*pk))
	}
	var want []string
	for _, sh := range c.shardsFor(pk) {
		for k, r := range c.models[sh].Recs {
			for _, ix := range r.Indexes {
				if ix.Name == "idx" && model.CompareKeys(ix.Secondary, a) >= 0 && model.CompareKeys(ix.Secondary, b) < 0 {
					want = append(want, k)
				}
			}
		}
	}
	sort.Strings(want)
	ctx, cancel := bg()
	got, err := c.cl.List(ctx, a, b, lopts...)
	cancel()
	c.logf("list(idx)[%q,%q) pk=%v -> %d keys err=%v", a, b, strOf(pk), len(got), err)
	if err != nil {
		c.fail("list on the index failed: %v", err)
	}
	gs := append([]string(nil), got...)
	sort.Strings(gs)
	if strings.Join(gs, "\x00") != strings.Join(want, "\x00") {
		c.fail("list(index idx,[%q,%q),pk=%v) returned %q, the live records declaring a secondary key in the range are %q", a, b, strOf(pk), got, want)
	}
	ctx2, cancel2 := context.WithTimeout(context.Background(), 10*time.Second)
	defer cancel2()
	var scanned []string
	for r := range c.cl.RangeScan(ctx2, a, b, sopts...) {
		if r.Err != nil {
			c.fail("range scan on the index failed: %v", r.Err)
		}
		scanned = append(scanned, r.Key)
	}
	sort.Strings(scanned)
	if strings.Join(scanned, "\x00") != strings.Join(want, "\x00") {
		c.fail("rangeScan(index idx,[%q,%q),pk=%v) delivered %q, expected %q", a, b, strOf(pk), scanned, want)
	}
}

func strOf(p *string) string {
	if p == nil {
		return "-"
	}
	return *p
}

func i64Of(p *int64) string {
	if p == nil {
		return "-"
	}
	return fmt.Sprint(*p)
}

func runE2EModel(t *rapid.T, focus string) {
	dir, err := os.MkdirTemp(tmpRoot, "e2em-")
	if err != nil {
		t.Fatalf("tmp: %v", err)
	}
	defer evid.RetireDir(dir)
	port, err := freePort()
	if err != nil {
		t.Skip("inconclusive: no free port")
	}
	drainPanics()
	srv := &e2eServer{dir: dir, port: port, n: uint32(rapid.IntRange(1, 4).Draw(t, "shards"))}
	if err := srv.start(); err != nil {
		t.Skip("inconclusive: standalone does not start: " + err.Error())
	}
	defer srv.shutdown()
	var copts []oxia.ClientOption
	copts = append(copts, oxia.WithRequestTimeout(8*time.Second))
	if rapid.Bool().Draw(t, "linger") {
		copts = append(copts, oxia.WithBatchLinger(time.Duration(rapid.IntRange(0, 3).Draw(t, "lingerMs"))*time.Millisecond))
	}
	cl, err := oxia.NewSyncClient(srv.addr(), copts...)
	if err != nil {
		t.Skip("inconclusive: client: " + err.Error())
	}
	defer cl.Close()
	c := &e2eCase{t: t, focus: focus, cl: cl, ranges: standaloneRanges(srv.n), models: map[int64]*model.Shard{}, pool: gen.Pool(t, 3, 8), pks: []string{"p", "q", "r/1"}}
	for _, r := range c.ranges {
		c.models[r.id] = model.New()
	}
	c.expectN = map[string][]string{}
	c.keyShards = map[string]map[int64]bool{}
	ns, err := cl.GetNotifications()
	if err != nil {
		t.Skip("inconclusive: GetNotifications: " + err.Error())
	}
	var nmu sync.Mutex
	gotN := map[string][]string{}
	nGot := 0
	go func() {
		for n := range ns.Ch() {
			var what string
			switch n.Type {
			case oxia.KeyCreated:
				what = fmt.Sprintf("created:%d", n.VersionId)
			case oxia.KeyModified:
				what = fmt.Sprintf("modified:%d", n.VersionId)
			case oxia.KeyDeleted:
				what = "deleted"
			case oxia.KeyRangeRangeDeleted:
				what = "range:" + n.KeyRangeEnd
			}
			nmu.Lock()
			gotN[n.Key] = append(gotN[n.Key], what)
			nGot++
			nmu.Unlock()
		}
	}()
	c.logf("standalone shards=%d pool=%q", srv.n, c.pool)
	writes, fanOut, restarted, idxQ := 0, 0, false, 0
	n := rapid.IntRange(4, 30).Draw(t, "nOps")
	for i := 0; i < n; i++ {
		switch rapid.SampledFrom([]string{"put", "put", "put", "delete", "deleteRange", "get", "get", "listScan", "indexQueries", "restart"}).Draw(t, "op") {
		case "put":
			c.put()
			writes++
		case "delete":
			c.del()
			writes++
		case "deleteRange":
			c.deleteRange()
			writes++
		case "get":
			c.get()
			fanOut++
		case "listScan":
			c.listAndScan()
			fanOut++
		case "indexQueries":
			c.indexQueries()
			fanOut++
			idxQ++
		case "restart":
			if restarted {
				continue
			}
			restarted = true
			c.logf("server restart")
			if err := srv.restart(); err != nil {
				t.Skip("inconclusive: standalone does not restart: " + err.Error())
			}
			// the client's connection is in back-off right after the restart, and list / range-scan are not retried:
			// wait until a read goes through again
			deadline := time.Now().Add(15 * time.Second)
			for {
				ctx, cancel := context.WithTimeout(context.Background(), 2*time.Second)
				_, err := c.cl.List(ctx, "zz-probe", "zz-probe0")
				cancel()
				if err == nil {
					break
				}
				if time.Now().After(deadline) {
					t.Skip("inconclusive: the client did not reconnect within 15 s: " + err.Error())
				}
				time.Sleep(50 * time.Millisecond)
			}
		}
	}
	c.listAndScan()
	if ps := drainPanics(); len(ps) > 0 {
		evid.Note(focus, "server_goroutine_panic", ps[0])
		evid.Case(focus, false, "e2e abandoned: "+ps[0], "inconclusive_server_goroutine_panicked")
		t.Skip("inconclusive: a server goroutine panicked: " + ps[0])
	}
	// C17 through the whole stack: the application has received, per key, exactly the changes the model computed,
	// in order (range deletes: one per shard the request was applied on; the order among them is free)
	deadline := time.Now().Add(10 * time.Second)
	for time.Now().Before(deadline) {
		nmu.Lock()
		n := nGot
		nmu.Unlock()
		if n >= c.nExpect {
			break
		}
		time.Sleep(10 * time.Millisecond)
	}
	time.Sleep(30 * time.Millisecond)
	nmu.Lock()
	for k, want := range c.expectN {
		got := gotN[k]
		w, g := append([]string(nil), want...), append([]string(nil), got...)
		if len(c.keyShards[k]) > 1 || (len(w) > 0 && strings.HasPrefix(w[0], "range:")) {
			sort.Strings(w)
			sort.Strings(g)
		}
		if strings.Join(w, " ") != strings.Join(g, " ") {
			nmu.Unlock()
			c.fail("notifications for key %q: the application received %v, the committed changes are %v (C17, end to end)", k, got, want)
		}
	}
	for k, got := range gotN {
		if len(c.expectN[k]) == 0 {
			nmu.Unlock()
			c.fail("notifications for key %q: the application received %v, no committed change touched that key (C17, end to end)", k, got)
		}
	}
	nmu.Unlock()
	_ = ns.Close()
	var labels []string
	if srv.n > 1 {
		labels = append(labels, "several_shards")
	}
	if restarted {
		labels = append(labels, "server_restart")
	}
	nontrivial := writes >= 3 && fanOut >= 1
	if focus == "C20" {
		nontrivial = nontrivial && srv.n > 1
	}
	if focus == "C15" {
		nontrivial = idxQ > 0 && writes >= 3
	}
	if focus == "C17" {
		nontrivial = c.nExpect >= 3
		if restarted {
			labels = append(labels, "notifications_across_server_restart")
		}
	}
	evid.Case(focus, nontrivial, "e2e "+strings.Join(c.hist, "; "), labels...)
}

func TestC12_E2E(t *testing.T) { rapid.Check(t, func(t *rapid.T) { runE2EModel(t, "C12") }) }
func TestC15_E2E(t *testing.T) { rapid.Check(t, func(t *rapid.T) { runE2EModel(t, "C15") }) }
func TestC17_E2E(t *testing.T) { rapid.Check(t, func(t *rapid.T) { runE2EModel(t, "C17") }) }
func TestC20_E2E(t *testing.T) { rapid.Check(t, func(t *rapid.T) { runE2EModel(t, "C20") }) }
