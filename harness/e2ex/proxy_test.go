package e2ex

// A TCP relay between the client library and the standalone server. The client only ever sees the relay's address;
// while the server is being restarted the relay drops its connections and refuses new ones, and lets traffic
// through again only once the server is completely up. (Without it a client that reconnects while the standalone
// server is half-way through its start-up hits publicRpcServer.GetShardAssignments before the assignment
// dispatcher has been set and the process dies on a nil dereference - a start-up race of the standalone wiring,
// outside the listed properties.)

import (
	"io"
	"net"
	"sync"
)

type relay struct {
	ln     net.Listener
	target string
	mu     sync.Mutex
	open   bool
	conns  map[net.Conn]bool
	done   chan struct{}
}

func newRelay(target string) (*relay, error) {
	ln, err := net.Listen("tcp", "127.0.0.1:0")
	if err != nil {
		return nil, err
	}
	r := &relay{ln: ln, target: target, open: true, conns: map[net.Conn]bool{}, done: make(chan struct{})}
	go r.accept()
	return r, nil
}

func (r *relay) addr() string { return r.ln.Addr().String() }

func (r *relay) accept() {
	for {
		c, err := r.ln.Accept()
		if err != nil {
			return
		}
		r.mu.Lock()
		ok := r.open
		r.mu.Unlock()
		if !ok {
			_ = c.Close()
			continue
		}
		up, err := net.Dial("tcp", r.target)
		if err != nil {
			_ = c.Close()
			continue
		}
		r.mu.Lock()
		r.conns[c], r.conns[up] = true, true
		r.mu.Unlock()
		pipe := func(dst, src net.Conn) {
			_, _ = io.Copy(dst, src)
			_ = dst.Close()
			_ = src.Close()
			r.mu.Lock()
			delete(r.conns, dst)
			delete(r.conns, src)
			r.mu.Unlock()
		}
		go pipe(up, c)
		go pipe(c, up)
	}
}

// pause drops every connection and refuses new ones until resume.
func (r *relay) pause() {
	r.mu.Lock()
	r.open = false
	for c := range r.conns {
		_ = c.Close()
	}
	r.mu.Unlock()
}

func (r *relay) resume() {
	r.mu.Lock()
	r.open = true
	r.mu.Unlock()
}

func (r *relay) close() {
	r.pause()
	_ = r.ln.Close()
}
