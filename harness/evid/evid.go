// Package evid is the evidence collector shared by all engines. Each test process accumulates, per
// property id, the number of generated cases, the set of hashes of the distinct non-trivial ones,
// label histograms, exclusions and a few written-out samples, and flushes them as JSON to the file
// named by VERIF_EVID_OUT when the process ends (TestMain calls Flush). The python driver merges the
// shards into /verif/evidence/<id>.json.
package evid

import (
	"encoding/json"
	"fmt"
	"hash/fnv"
	"io"
	"os"
	"path/filepath"
	"sort"
	"strings"
	"sync"
)

const maxHashes = 300000
const maxSamples = 6

type propData struct {
	Evaluations   int64            `json:"evaluations"`
	Nontrivial    int64            `json:"nontrivial_total"`
	Hashes        map[uint64]bool  `json:"-"`
	HashList      []uint64         `json:"hashes"`
	Labels        map[string]int64 `json:"labels"`
	Excluded      map[string]int64 `json:"excluded"`
	Samples       []any            `json:"samples"`
	sampleKeys    []uint64
	Notes         map[string]string `json:"notes"`
	KnownFindings []string          `json:"known_findings"`
}

var (
	mu   sync.Mutex
	data = map[string]*propData{}
)

func get(prop string) *propData {
	d := data[prop]
	if d == nil {
		d = &propData{Hashes: map[uint64]bool{}, Labels: map[string]int64{}, Excluded: map[string]int64{}, Notes: map[string]string{}}
		data[prop] = d
	}
	return d
}

func hash(s string) uint64 {
	h := fnv.New64a()
	_, _ = h.Write([]byte(s))
	return h.Sum64()
}

// Case records one generated case for a property. descriptor is the canonical written-out form of
// the case (used for distinctness hashing and, for a few cases, kept verbatim as a sample).
func Case(prop string, nontrivial bool, descriptor string, labels ...string) {
	mu.Lock()
	defer mu.Unlock()
	d := get(prop)
	d.Evaluations++
	for _, l := range labels {
		d.Labels[l]++
	}
	if !nontrivial {
		return
	}
	d.Nontrivial++
	h := hash(descriptor)
	if !d.Hashes[h] {
		if len(d.Hashes) < maxHashes {
			d.Hashes[h] = true
		}
	}
	// deterministic "reservoir": keep the samples with the smallest hashes plus the first one
	if len(descriptor) > 3000 {
		descriptor = descriptor[:3000] + "...(truncated)"
	}
	if len(d.Samples) < maxSamples {
		d.Samples = append(d.Samples, descriptor)
		d.sampleKeys = append(d.sampleKeys, h)
		return
	}
	// replace the largest key if this one is smaller (never index 0: the first case is always kept)
	mi := 1
	for i := 2; i < len(d.sampleKeys); i++ {
		if d.sampleKeys[i] > d.sampleKeys[mi] {
			mi = i
		}
	}
	if h < d.sampleKeys[mi] {
		d.sampleKeys[mi] = h
		d.Samples[mi] = descriptor
	}
}

// Label bumps a label counter without counting a case.
func Label(prop string, label string, n int64) {
	mu.Lock()
	defer mu.Unlock()
	get(prop).Labels[label] += n
}

// Excluded counts a generator exclusion applied because of a listed known finding.
func Excluded(prop string, what string) {
	mu.Lock()
	defer mu.Unlock()
	get(prop).Excluded[what]++
}

func Note(prop, key, val string) {
	mu.Lock()
	defer mu.Unlock()
	get(prop).Notes[key] = val
}

// KnownFinding records that a listed known finding was re-confirmed by its scripted replay.
func KnownFinding(prop, what string) {
	mu.Lock()
	defer mu.Unlock()
	d := get(prop)
	d.KnownFindings = append(d.KnownFindings, what)
	fmt.Printf("KNOWN-FINDING: property=%s %s\n", prop, what)
}

// Flush writes the collected data to $VERIF_EVID_OUT (no-op when unset).
func Flush() {
	out := os.Getenv("VERIF_EVID_OUT")
	if out == "" {
		return
	}
	mu.Lock()
	defer mu.Unlock()
	for _, d := range data {
		d.HashList = d.HashList[:0]
		for h := range d.Hashes {
			d.HashList = append(d.HashList, h)
		}
		sort.Slice(d.HashList, func(i, j int) bool { return d.HashList[i] < d.HashList[j] })
	}
	b, err := json.Marshal(data)
	if err != nil {
		fmt.Fprintln(os.Stderr, "evid: marshal:", err)
		return
	}
	tmp := out + ".tmp"
	if err := os.WriteFile(tmp, b, 0o644); err != nil {
		fmt.Fprintln(os.Stderr, "evid: write:", err)
		return
	}
	_ = os.Rename(tmp, out)
}

// Known reports whether a finding signature is listed as open in /verif/known_findings.json (the
// driver passes the open signatures of the property being checked in VERIF_KNOWN).
func Known(sig string) bool {
	for _, s := range strings.Split(os.Getenv("VERIF_KNOWN"), ",") {
		if s == sig {
			return true
		}
	}
	return false
}

// WarnLog is where the engines send oxia's own log records of level WARN and above: a file in the run's scratch
// directory that is kept short. Some failure paths of the code under test end the process with os.Exit(1) right
// after logging why (Pebble's logger on a fatal storage error, for one); the driver prints the tail of this file
// when a worker ends that way.
func WarnLog() io.Writer {
	dir := os.Getenv("VERIF_TMP")
	if dir == "" {
		return io.Discard
	}
	return &warnLog{path: filepath.Join(dir, "oxia-warnings.log")}
}

type warnLog struct {
	mu   sync.Mutex
	path string
	f    *os.File
	n    int
}

func (w *warnLog) Write(p []byte) (int, error) {
	w.mu.Lock()
	defer w.mu.Unlock()
	if w.f == nil || w.n > 1<<20 {
		if w.f != nil {
			_ = w.f.Close()
		}
		f, err := os.Create(w.path)
		if err != nil {
			return len(p), nil
		}
		w.f, w.n = f, 0
	}
	n, _ := w.f.Write(p)
	w.n += n
	return len(p), nil
}

// RetireDir removes the directory of a finished case with a delay of a few cases: a database instance of the
// code under test that is still finishing a background job when the case ends (a close that was bounded, a
// controller replaced during an election) would otherwise find its files gone, and Pebble ends the whole process
// on that (Fatalf -> os.Exit(1)).
var (
	retireMu sync.Mutex
	retired  []string
)

func RetireDir(dir string) {
	retireMu.Lock()
	retired = append(retired, dir)
	var old string
	if len(retired) > 12 {
		old, retired = retired[0], retired[1:]
	}
	retireMu.Unlock()
	if old != "" {
		_ = os.RemoveAll(old)
	}
}
