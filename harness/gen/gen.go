// Package gen holds the rapid generators shared by the engines: keys over an adversarial alphabet
// (bytes adjacent to '/' in byte order matter for the hierarchical key order), key pools, and write
// requests with expected versions drawn relative to the model state.
package gen

import (
	"fmt"
	"sort"
	"strings"

	"pgregory.net/rapid"

	"github.com/oxia-db/oxia/proto"

	"verifharness/model"
)

var alphabet = []byte{'-', '.', '/', '0', '1', 'a', 'b', '~'}

var escapeSensitive = []string{"+", " ", "%", "%2F", "%zz", "?", "#", "&", "=", ";", ":"}

// Key draws a user key of length 1..6 over the adversarial alphabet, outside the reserved prefix.
func Key() *rapid.Generator[string] {
	return rapid.Custom(func(t *rapid.T) string {
		n := rapid.IntRange(1, 6).Draw(t, "keyLen")
		b := make([]byte, n)
		for i := range b {
			b[i] = rapid.SampledFrom(alphabet).Draw(t, "c")
		}
		return string(b)
	})
}

// Pool draws 3..12 distinct keys; about half of the pools share first segments so that ranges of
// the form [x/.., x/..) hit several keys.
func Pool(t *rapid.T, min, max int) []string {
	n := rapid.IntRange(min, max).Draw(t, "poolSize")
	seen := map[string]bool{}
	var out []string
	// a third of the pools also hold keys with characters that url-style escaping treats specially (the server
	// derives internal record names from user keys)
	escapes := rapid.IntRange(0, 2).Draw(t, "poolWithEscapeChars") == 0
	for len(out) < n {
		k := Key().Draw(t, "poolKey")
		if escapes && rapid.IntRange(0, 1).Draw(t, "escapeChar") == 0 {
			pos := rapid.IntRange(0, len(k)).Draw(t, "escapePos")
			k = k[:pos] + rapid.SampledFrom(escapeSensitive).Draw(t, "escapeWhich") + k[pos:]
		}
		if rapid.IntRange(0, 3).Draw(t, "nest") == 0 && len(out) > 0 {
			base := out[rapid.IntRange(0, len(out)-1).Draw(t, "nestBase")]
			k = base + "/" + k
			if len(k) > 14 {
				k = k[:14]
			}
		}
		if !seen[k] && !model.IsInternal(k) {
			seen[k] = true
			out = append(out, k)
		}
	}
	return out
}

func ptrI(v int64) *int64   { return &v }
func ptrS(v string) *string { return &v }

// SafeRange draws delete-range / list bounds that cannot span the reserved "__oxia/" records: both
// bounds slash-free, or both sharing a first segment other than "__oxia"; start <= end in key order,
// both non-empty.
func SafeRange(t *rapid.T, pool []string) (string, string) {
	var a, b string
	if rapid.Bool().Draw(t, "slashFreeRange") {
		a = strings.ReplaceAll(drawBound(t, pool), "/", "")
		b = strings.ReplaceAll(drawBound(t, pool), "/", "")
		if a == "" {
			a = "-"
		}
		if b == "" {
			b = "~"
		}
	} else {
		seg := strings.SplitN(drawBound(t, pool), "/", 2)[0]
		if seg == "" || seg == "__oxia" {
			seg = "a"
		}
		a = seg + "/" + strings.TrimPrefix(drawBound(t, pool), "/")
		b = seg + "/" + strings.TrimPrefix(drawBound(t, pool), "/")
		// keep one level: deeper slashes are fine, both bounds share the first segment
	}
	if model.CompareKeys(a, b) > 0 {
		a, b = b, a
	}
	return a, b
}

func drawBound(t *rapid.T, pool []string) string {
	if len(pool) > 0 && rapid.IntRange(0, 2).Draw(t, "boundFromPool") > 0 {
		k := pool[rapid.IntRange(0, len(pool)-1).Draw(t, "boundIdx")]
		switch rapid.IntRange(0, 3).Draw(t, "boundTweak") {
		case 0:
			return k + "-"
		case 1:
			if len(k) > 1 {
				return k[:len(k)-1]
			}
		}
		return k
	}
	return Key().Draw(t, "boundKey")
}

// ExpectedVersion draws an expected version id for key relative to the model state.
func ExpectedVersion(t *rapid.T, m *model.Shard, key string) *int64 {
	cur := m.Recs[key]
	switch rapid.IntRange(0, 9).Draw(t, "evKind") {
	case 0, 1, 2, 3, 4:
		return nil
	case 5:
		return ptrI(-1)
	case 6, 7:
		if cur != nil {
			return ptrI(cur.VersionId)
		}
		return ptrI(-1)
	case 8:
		if cur != nil && cur.VersionId > 0 {
			return ptrI(cur.VersionId - 1) // stale
		}
		return ptrI(m.LastVersion + 5) // never assigned
	default:
		return ptrI(int64(rapid.IntRange(0, 40).Draw(t, "evRandom")))
	}
}

type ReqOpts struct {
	Pool       []string
	Sessions   []int64 // candidate session ids (alive or dead)
	IndexNames []string
	SeqPrefix  []string
	Tag        func() string // unique value tag source
	MaxPuts    int
}

// WriteRequest draws a request mixing puts, deletes and delete-ranges over the pool. It applies a
// shadow copy of the model while drawing so that expected versions for later operations of the same
// request are interesting (same key twice, put+delete of one key, range delete over fresh puts).
func WriteRequest(t *rapid.T, m *model.Shard, o ReqOpts) *proto.WriteRequest {
	req := &proto.WriteRequest{}
	maxPuts := o.MaxPuts
	if maxPuts == 0 {
		maxPuts = 4
	}
	nPuts := rapid.IntRange(0, maxPuts).Draw(t, "nPuts")
	nDel := rapid.IntRange(0, 3).Draw(t, "nDeletes")
	nRange := rapid.IntRange(0, 2).Draw(t, "nRanges")
	if rapid.IntRange(0, 3).Draw(t, "fewOps") == 0 {
		nDel, nRange = nDel/2, 0
	}
	pick := func(label string) string {
		return o.Pool[rapid.IntRange(0, len(o.Pool)-1).Draw(t, label)]
	}
	for i := 0; i < nPuts; i++ {
		p := &proto.PutRequest{Value: []byte(o.Tag())}
		if len(o.SeqPrefix) > 0 && rapid.IntRange(0, 3).Draw(t, "seqPut") == 0 {
			p.Key = o.SeqPrefix[rapid.IntRange(0, len(o.SeqPrefix)-1).Draw(t, "seqPrefix")]
			_, suf := m.HighestSequenceKey(p.Key)
			nd := rapid.IntRange(max(1, len(suf)), 3).Draw(t, "nDeltas")
			for j := 0; j < nd; j++ {
				lo := 0
				if j == 0 {
					lo = 1
				}
				p.SequenceKeyDelta = append(p.SequenceKeyDelta, uint64(rapid.IntRange(lo, 5).Draw(t, "delta")))
			}
			p.PartitionKey = ptrS(p.Key)
		} else {
			p.Key = pick("putKey")
			p.ExpectedVersionId = ExpectedVersion(t, m, p.Key)
		}
		if len(o.Sessions) > 0 && rapid.IntRange(0, 3).Draw(t, "underSession") == 0 {
			p.SessionId = ptrI(o.Sessions[rapid.IntRange(0, len(o.Sessions)-1).Draw(t, "session")])
		}
		if rapid.IntRange(0, 4).Draw(t, "identity") == 0 {
			p.ClientIdentity = ptrS(fmt.Sprintf("client-%d", rapid.IntRange(1, 3).Draw(t, "client")))
		}
		if len(o.IndexNames) > 0 {
			ni := rapid.IntRange(0, 2).Draw(t, "nIdx")
			seen := map[string]bool{}
			for j := 0; j < ni; j++ {
				name := o.IndexNames[rapid.IntRange(0, len(o.IndexNames)-1).Draw(t, "idxName")]
				sk := strings.ReplaceAll(Key().Draw(t, "secKey"), "\x01", "")
				if seen[name+"\x00"+sk] {
					continue
				}
				seen[name+"\x00"+sk] = true
				p.SecondaryIndexes = append(p.SecondaryIndexes, &proto.SecondaryIndex{IndexName: name, SecondaryKey: sk})
			}
		}
		req.Puts = append(req.Puts, p)
	}
	for i := 0; i < nDel; i++ {
		k := pick("delKey")
		req.Deletes = append(req.Deletes, &proto.DeleteRequest{Key: k, ExpectedVersionId: ExpectedVersion(t, m, k)})
	}
	for i := 0; i < nRange; i++ {
		a, b := SafeRange(t, o.Pool)
		req.DeleteRanges = append(req.DeleteRanges, &proto.DeleteRangeRequest{StartInclusive: a, EndExclusive: b})
	}
	return req
}

func max(a, b int) int {
	if a > b {
		return a
	}
	return b
}

// FormatRequest writes a request out compactly (canonical descriptor for evidence / failure messages).
func FormatRequest(r *proto.WriteRequest) string {
	var sb strings.Builder
	sb.WriteString("W{")
	if len(r.Puts) > 24 {
		fmt.Fprintf(&sb, "%d puts %q..%q ", len(r.Puts), r.Puts[0].Key, r.Puts[len(r.Puts)-1].Key)
	}
	for _, p := range r.Puts {
		if len(r.Puts) > 24 {
			break
		}
		fmt.Fprintf(&sb, "put(%q", p.Key)
		if p.ExpectedVersionId != nil {
			fmt.Fprintf(&sb, ",ev=%d", *p.ExpectedVersionId)
		}
		if p.SessionId != nil {
			fmt.Fprintf(&sb, ",s=%d", *p.SessionId)
		}
		if len(p.SequenceKeyDelta) > 0 {
			fmt.Fprintf(&sb, ",seq=%v", p.SequenceKeyDelta)
		}
		if p.PartitionKey != nil {
			fmt.Fprintf(&sb, ",pk=%q", *p.PartitionKey)
		}
		for _, si := range p.SecondaryIndexes {
			fmt.Fprintf(&sb, ",idx[%s]=%q", si.IndexName, si.SecondaryKey)
		}
		if len(p.Value) <= 12 {
			fmt.Fprintf(&sb, ",val=%s) ", p.Value)
		} else {
			fmt.Fprintf(&sb, ",len=%d) ", len(p.Value))
		}
	}
	for _, d := range r.Deletes {
		fmt.Fprintf(&sb, "del(%q", d.Key)
		if d.ExpectedVersionId != nil {
			fmt.Fprintf(&sb, ",ev=%d", *d.ExpectedVersionId)
		}
		sb.WriteString(") ")
	}
	for _, d := range r.DeleteRanges {
		fmt.Fprintf(&sb, "delrange[%q,%q) ", d.StartInclusive, d.EndExclusive)
	}
	sb.WriteString("}")
	return sb.String()
}

func SortKeys(keys []string) {
	sort.Slice(keys, func(i, j int) bool { return model.CompareKeys(keys[i], keys[j]) < 0 })
}
