package gen

import (
	"fmt"
	"strings"
	"unicode/utf8"

	"pgregory.net/rapid"

	"github.com/oxia-db/oxia/proto"

	"verifharness/evid"
	"verifharness/model"
)

// Signatures of the listed C13 findings (invalid sequence puts); requests of these shapes are excluded by
// construction, and counted, while the finding is open.
const (
	KfSeqNoPartitionKey = "C13:sequence-put-without-partition-key"
	KfSeqZeroDelta      = "C13:sequence-put-first-delta-zero"
	KfSeqFewerDeltas    = "C13:sequence-put-fewer-deltas-than-existing-suffixes"
	KfSeqBadSuffix      = "C13:sequence-put-over-key-with-non-numeric-suffix"
)

func p64(v int64) *int64    { return &v }
func pstr(v string) *string { return &v }

// HasBadUTF8 reports whether any string field of the request is not valid UTF-8.
func HasBadUTF8(req *proto.WriteRequest) bool {
	bad := func(s string) bool { return !utf8.ValidString(s) }
	for _, p := range req.Puts {
		if bad(p.Key) || (p.PartitionKey != nil && bad(*p.PartitionKey)) || (p.ClientIdentity != nil && bad(*p.ClientIdentity)) {
			return true
		}
		for _, si := range p.SecondaryIndexes {
			if bad(si.IndexName) || bad(si.SecondaryKey) {
				return true
			}
		}
	}
	for _, d := range req.Deletes {
		if bad(d.Key) {
			return true
		}
	}
	for _, r := range req.DeleteRanges {
		if bad(r.StartInclusive) || bad(r.EndExclusive) {
			return true
		}
	}
	return false
}

// badUTF8 are byte strings that are not valid UTF-8. proto3 string fields are meant to hold UTF-8, and a
// conforming encoder refuses to build such a message, but the server decodes requests with vtprotobuf, which
// does not validate: a raw gRPC client can put these on the wire and they are accepted into the log.
var badUTF8 = []string{"\xff", "k\xff\xfe", "\xc0\x80", "a/\xe2\x82", "\xed\xa0\x80z", "b\x80", "\xf8\x88\x80\x80\x80"}

// HostileKey: keys a client can put on the wire (any bytes, outside the reserved prefix).
func HostileKey(t *rapid.T, pool []string) string {
	k := hostileKey0(t, pool)
	if strings.HasPrefix(k, "sq") {
		return "s" + k
	}
	return k
}

func hostileKey0(t *rapid.T, pool []string) string {
	switch rapid.IntRange(0, 10).Draw(t, "hk") {
	case 0:
		return ""
	case 4:
		return rapid.SampledFrom(badUTF8).Draw(t, "badutf8")
	case 1:
		return strings.Repeat(Key().Draw(t, "rep"), rapid.IntRange(1, 300).Draw(t, "repN"))
	case 2:
		return Key().Draw(t, "k") + "-" + rapid.SampledFrom([]string{"abc", "00000000000000000001", "0000000000000000000x", "1", "-", "99999999999999999999"}).Draw(t, "suffix")
	case 3:
		s := rapid.StringN(0, 8, 16).Draw(t, "uni")
		if !utf8.ValidString(s) || model.IsInternal(s) {
			return "u"
		}
		return s
	default:
		return pool[rapid.IntRange(0, len(pool)-1).Draw(t, "pk")]
	}
}

// HostileRequest draws a request that is accepted into the log: the two sequence-put shapes that the leader refuses
// before logging (no partition key, first delta 0) are normalised. HostileRequestRaw keeps them.
func HostileRequest(t *rapid.T, pool []string, sessions []int64, newTag func() string) (*proto.WriteRequest, bool) {
	return hostileRequest(t, pool, sessions, newTag, false)
}

func HostileRequestRaw(t *rapid.T, pool []string, sessions []int64, newTag func() string) (*proto.WriteRequest, bool) {
	return hostileRequest(t, pool, sessions, newTag, true)
}

// RefusedBeforeLogging: the leader validates these shapes at the entry of its write path and answers with an error
// without appending anything.
func RefusedBeforeLogging(req *proto.WriteRequest) bool {
	for _, p := range req.Puts {
		if len(p.SequenceKeyDelta) > 0 && (p.PartitionKey == nil || p.SequenceKeyDelta[0] == 0) {
			return true
		}
	}
	return false
}

func hostileRequest(t *rapid.T, pool []string, sessions []int64, newTag func() string, keepRefused bool) (*proto.WriteRequest, bool) {
	req := &proto.WriteRequest{}
	unusual := false
	if rapid.Bool().Draw(t, "shard") {
		req.Shard = p64(int64(rapid.IntRange(-1, 3).Draw(t, "shardId")))
	}
	nPuts := rapid.IntRange(0, 6).Draw(t, "nPuts")
	if rapid.IntRange(0, 9).Draw(t, "many") == 0 {
		nPuts = rapid.IntRange(20, 50).Draw(t, "nPutsMany")
	}
	for i := 0; i < nPuts; i++ {
		p := &proto.PutRequest{Key: HostileKey(t, pool)}
		if rapid.Bool().Draw(t, "val") {
			p.Value = []byte(newTag())
		}
		switch rapid.IntRange(0, 4).Draw(t, "ev") {
		case 0:
			p.ExpectedVersionId = p64(int64(rapid.IntRange(-3, 30).Draw(t, "evv")))
		case 1:
			p.ExpectedVersionId = p64(rapid.Int64().Draw(t, "evAny"))
		}
		if rapid.IntRange(0, 2).Draw(t, "seq") == 0 {
			unusual = true
			nd := rapid.IntRange(1, 4).Draw(t, "nd")
			for j := 0; j < nd; j++ {
				p.SequenceKeyDelta = append(p.SequenceKeyDelta, rapid.SampledFrom([]uint64{0, 1, 2, 5, 1 << 62, 1<<64 - 1}).Draw(t, "delta"))
			}
			if rapid.Bool().Draw(t, "pk") {
				p.PartitionKey = pstr(HostileKey(t, pool))
			}
			if !keepRefused {
				// not part of any log: the leader refuses these before appending (checked by TestC13_Replay)
				if p.PartitionKey == nil {
					p.PartitionKey = pstr("pk")
				}
				if p.SequenceKeyDelta[0] == 0 {
					p.SequenceKeyDelta[0] = 1
				}
			}
			if evid.Known(KfSeqFewerDeltas) || evid.Known(KfSeqBadSuffix) {
				// the two state-dependent classes are avoided by giving every sequence put a prefix that no
				// other key shares, with a fixed number of deltas per prefix
				evid.Excluded("C13", KfSeqFewerDeltas+"|"+KfSeqBadSuffix)
				p.Key = fmt.Sprintf("sq%d", nd)
			}
		} else if rapid.IntRange(0, 3).Draw(t, "pkPlain") == 0 {
			p.PartitionKey = pstr(HostileKey(t, pool))
		}
		if rapid.IntRange(0, 2).Draw(t, "sess") == 0 {
			switch rapid.IntRange(0, 2).Draw(t, "sessKind") {
			case 0:
				p.SessionId = p64(rapid.Int64().Draw(t, "sidAny"))
				unusual = true
			default:
				if len(sessions) > 0 {
					p.SessionId = p64(sessions[rapid.IntRange(0, len(sessions)-1).Draw(t, "sidx")])
				} else {
					p.SessionId = p64(77)
				}
			}
		}
		if rapid.IntRange(0, 2).Draw(t, "idx") == 0 {
			n := rapid.IntRange(1, 3).Draw(t, "nIdx")
			for j := 0; j < n; j++ {
				name := rapid.SampledFrom([]string{"idx", "", "a/b", "x\x01y", "idx0", "/", "i\xff", strings.Repeat("n", 200)}).Draw(t, "idxName")
				sk := rapid.SampledFrom([]string{"", "k", "a/b", "s\x01p", "\x01", "//", "s\xc0\x80", Key().Draw(t, "sk")}).Draw(t, "idxKey")
				if name != "idx" && name != "idx0" || strings.ContainsAny(sk, "\x01") || sk == "" {
					unusual = true
				}
				p.SecondaryIndexes = append(p.SecondaryIndexes, &proto.SecondaryIndex{IndexName: name, SecondaryKey: sk})
			}
		}
		if rapid.IntRange(0, 5).Draw(t, "ident") == 0 {
			p.ClientIdentity = pstr(rapid.SampledFrom([]string{"", "c1", "c\xff", strings.Repeat("i", 100)}).Draw(t, "identity"))
		}
		req.Puts = append(req.Puts, p)
	}
	nDel := rapid.IntRange(0, 3).Draw(t, "nDel")
	for i := 0; i < nDel; i++ {
		d := &proto.DeleteRequest{Key: HostileKey(t, pool)}
		if rapid.IntRange(0, 2).Draw(t, "dev") == 0 {
			d.ExpectedVersionId = p64(int64(rapid.IntRange(-3, 30).Draw(t, "devv")))
		}
		req.Deletes = append(req.Deletes, d)
	}
	nR := rapid.IntRange(0, 2).Draw(t, "nRange")
	for i := 0; i < nR; i++ {
		// any bounds, including empty / inverted / equal; never inside or across the reserved prefix
		a, b := HostileKey(t, pool), HostileKey(t, pool)
		switch rapid.IntRange(0, 4).Draw(t, "rk") {
		case 0:
			b = a
			unusual = true
		case 1:
			if model.CompareKeys(a, b) < 0 {
				a, b = b, a
				unusual = true
			}
		case 2:
			b = ""
			unusual = true
		}
		// a range may well span the reserved records ("delete everything between A/ and z/"): the reserved prefix
		// sorts in the middle of the user key space, at every depth of the hierarchical order
		if rapid.IntRange(0, 3).Draw(t, "wideRange") == 0 {
			a = rapid.SampledFrom([]string{"", "-", "A/", "A/A/", "0/0/0/0"}).Draw(t, "wideLo")
			b = rapid.SampledFrom([]string{"~", "z/", "z/z/z", "~/~/~/~/~", "a/"}).Draw(t, "wideHi")
			unusual = true
		}
		req.DeleteRanges = append(req.DeleteRanges, &proto.DeleteRangeRequest{StartInclusive: a, EndExclusive: b})
	}
	return req, unusual
}
