package kvx

import (
	"bytes"
	"fmt"
	"os"
	"sort"
	"strings"
	"testing"

	"pgregory.net/rapid"

	"github.com/oxia-db/oxia/common/compare"
	"github.com/oxia-db/oxia/proto"
	"github.com/oxia-db/oxia/server/kv"

	"verifharness/evid"
	"verifharness/gen"
	"verifharness/model"
)

func sign(x int) int {
	switch {
	case x < 0:
		return -1
	case x > 0:
		return 1
	}
	return 0
}

// byteKey draws a key either over the adversarial alphabet or over arbitrary bytes.
func byteKey(t *rapid.T, label string) []byte {
	if rapid.IntRange(0, 3).Draw(t, label+"Any") == 0 {
		return rapid.SliceOfN(rapid.Byte(), 0, 12).Draw(t, label)
	}
	n := rapid.IntRange(0, 12).Draw(t, label+"Len")
	b := make([]byte, n)
	for i := range b {
		b[i] = rapid.SampledFrom([]byte{'-', '.', '/', '0', '1', 'a', 'b', '~', 0x00, 0xff}).Draw(t, label+"C")
	}
	return b
}

// relatedKey derives a key sharing a prefix with a (so that the first difference is where it matters).
func relatedKey(t *rapid.T, a []byte, label string) []byte {
	if len(a) == 0 || rapid.IntRange(0, 2).Draw(t, label+"Indep") == 0 {
		return byteKey(t, label)
	}
	cut := rapid.IntRange(0, len(a)).Draw(t, label+"Cut")
	b := append([]byte{}, a[:cut]...)
	return append(b, byteKey(t, label+"Tail")...)
}

// (a) comparator laws + agreement with the independent model implementation of the documented order.
func runC11Laws(t *rapid.T) {
	a := byteKey(t, "a")
	b := relatedKey(t, a, "b")
	c := relatedKey(t, b, "c")
	cmp := compare.CompareWithSlash
	ab, ba := sign(cmp(a, b)), sign(cmp(b, a))
	if ab != -ba {
		t.Fatalf("C11: antisymmetry: cmp(%q,%q)=%d cmp(%q,%q)=%d", a, b, ab, b, a, ba)
	}
	if (ab == 0) != bytes.Equal(a, b) {
		t.Fatalf("C11: cmp(%q,%q)=%d but bytes equal=%v", a, b, ab, bytes.Equal(a, b))
	}
	if sign(cmp(a, a)) != 0 {
		t.Fatalf("C11: cmp(%q,%q) != 0", a, a)
	}
	bc, ac := sign(cmp(b, c)), sign(cmp(a, c))
	if ab <= 0 && bc <= 0 && ac > 0 {
		t.Fatalf("C11: transitivity: %q <= %q <= %q but cmp(a,c)=%d", a, b, c, ac)
	}
	if ab >= 0 && bc >= 0 && ac < 0 {
		t.Fatalf("C11: transitivity: %q >= %q >= %q but cmp(a,c)=%d", a, b, c, ac)
	}
	if want := sign(model.CompareKeys(string(a), string(b))); want != ab {
		t.Fatalf("C11: cmp(%q,%q)=%d, documented order gives %d", a, b, ab, want)
	}
	nontrivial := false
	// first difference at a '/' or at a byte adjacent to '/'
	n := 0
	for n < len(a) && n < len(b) && a[n] == b[n] {
		n++
	}
	for _, x := range [][]byte{a, b} {
		if n < len(x) && (x[n] == '/' || x[n] == '.' || x[n] == '0') {
			nontrivial = true
		}
	}
	evid.Case("C11", nontrivial, fmt.Sprintf("laws a=%q b=%q c=%q", a, b, c), "laws")
}

func TestC11_Laws(t *testing.T) {
	rapid.Check(t, runC11Laws)
}

// (b) the contract Pebble documents for the Comparer it is handed.
func runC11Comparer(t *rapid.T) {
	a := byteKey(t, "a")
	b := relatedKey(t, a, "b")
	c := kv.OxiaSlashSpanComparer
	if c.Compare(a, b) > 0 {
		a, b = b, a
	}
	if c.Equal(a, b) != (c.Compare(a, b) == 0) {
		t.Fatalf("C11: Equal(%q,%q)=%v but Compare=%d", a, b, c.Equal(a, b), c.Compare(a, b))
	}
	if c.Compare(a, b) < 0 {
		sep := c.Separator(nil, a, b)
		if !(c.Compare(a, sep) <= 0 && c.Compare(sep, b) < 0) {
			t.Fatalf("C11: Separator(%q,%q)=%q violates a <= sep < b in the comparer's own order (cmp(a,sep)=%d cmp(sep,b)=%d)",
				a, b, sep, c.Compare(a, sep), c.Compare(sep, b))
		}
	}
	succ := c.Successor(nil, a)
	if c.Compare(a, succ) > 0 {
		t.Fatalf("C11: Successor(%q)=%q sorts before its argument", a, succ)
	}
	if c.AbbreviatedKey(a) < c.AbbreviatedKey(b) && c.Compare(a, b) >= 0 {
		t.Fatalf("C11: AbbreviatedKey(%q) < AbbreviatedKey(%q) but Compare=%d", a, b, c.Compare(a, b))
	}
	if c.AbbreviatedKey(a) > c.AbbreviatedKey(b) && c.Compare(a, b) <= 0 {
		t.Fatalf("C11: AbbreviatedKey(%q) > AbbreviatedKey(%q) but Compare=%d", a, b, c.Compare(a, b))
	}
	if c.ImmediateSuccessor != nil && len(a) > 0 {
		is := c.ImmediateSuccessor(nil, a)
		if c.Compare(a, is) >= 0 {
			t.Fatalf("C11: ImmediateSuccessor(%q)=%q does not sort after its argument", a, is)
		}
	}
	n := 0
	for n < len(a) && n < len(b) && a[n] == b[n] {
		n++
	}
	nontrivial := n < len(a) && (a[n] == '.' || a[n] == '/' || a[n] == '-')
	evid.Case("C11", nontrivial, fmt.Sprintf("comparer a=%q b=%q", a, b), "comparer_contract")
}

func TestC11_Comparer(t *testing.T) {
	rapid.Check(t, runC11Comparer)
}

// (c) data sets large enough to span several storage blocks, several flushes (=> several tables and
// Pebble's own compactions), deletes, reopen: every read path against a sorted reference.
func runC11Engine(t *rapid.T) {
	dir := mkTemp(t, "c11-")
	defer os.RemoveAll(dir)
	f, err := kv.NewPebbleKVFactory(&kv.FactoryOptions{DataDir: dir, CacheSizeMB: 1})
	if err != nil {
		t.Fatalf("factory: %v", err)
	}
	defer f.Close()
	store, err := f.NewKV("ns", 1)
	if err != nil {
		t.Fatalf("kv: %v", err)
	}
	defer func() { _ = store.Close() }()
	ref := map[string][]byte{}
	var hist []string
	nKeys := rapid.IntRange(40, 400).Draw(t, "nKeys")
	valSize := rapid.SampledFrom([]int{2048, 4096, 8192, 16384}).Draw(t, "valSize")
	if nKeys*valSize > 3<<20 {
		valSize = 2048
	}
	nBatches := rapid.IntRange(1, 5).Draw(t, "nBatches")
	style := rapid.IntRange(0, 2).Draw(t, "keyStyle")
	seen := map[string]bool{}
	var keys []string
	for len(keys) < nKeys {
		var k string
		switch style {
		case 0: // slash-free keys with bytes adjacent to '/'
			k = strings.ReplaceAll(gen.Key().Draw(t, "k"), "/", ".") + fmt.Sprintf("%d", len(keys)%7)
		case 1: // hierarchical
			k = gen.Key().Draw(t, "k") + "/" + gen.Key().Draw(t, "k2")
		default:
			k = gen.Key().Draw(t, "k")
			if rapid.Bool().Draw(t, "longer") {
				k += gen.Key().Draw(t, "k3")
			}
		}
		if !seen[k] {
			seen[k] = true
			keys = append(keys, k)
		}
	}
	hist = append(hist, fmt.Sprintf("keys=%d style=%d valSize=%d batches=%d sample=%q", nKeys, style, valSize, nBatches, keys[:6]))
	sepCrossing := false
	verify := func(where string) {
		sorted := make([]string, 0, len(ref))
		for k := range ref {
			sorted = append(sorted, k)
		}
		sort.Slice(sorted, func(i, j int) bool { return model.CompareKeys(sorted[i], sorted[j]) < 0 })
		for i := 0; i+1 < len(sorted); i++ {
			sep := string(kv.OxiaSlashSpanComparer.Separator(nil, []byte(sorted[i]), []byte(sorted[i+1])))
			if sep != sorted[i] && sep != sorted[i+1] {
				sepCrossing = true
				break
			}
		}
		for _, k := range sorted {
			_, v, closer, err := store.Get(k, kv.ComparisonEqual)
			if err != nil {
				t.Fatalf("C11: %s: stored key %q is not found by an exact get: %v; history=%v", where, k, err, hist)
			}
			if !bytes.Equal(v, ref[k]) {
				t.Fatalf("C11: %s: key %q holds a wrong value; history=%v", where, k, hist)
			}
			_ = closer.Close()
		}
		it, err := store.KeyIterator()
		if err != nil {
			t.Fatalf("iterator: %v", err)
		}
		var got []string
		for ok := it.SeekGE(""); ok && it.Valid(); ok = it.Next() {
			got = append(got, it.Key())
		}
		_ = it.Close()
		if strings.Join(got, "\x00") != strings.Join(sorted, "\x00") {
			t.Fatalf("C11: %s: full iteration returns %d keys, reference %d (first difference %s); history=%v", where, len(got), len(sorted), firstDiff(got, sorted), hist)
		}
		for i := 0; i < 12; i++ {
			var probe string
			switch rapid.IntRange(0, 3).Draw(t, "probeKind") {
			case 0:
				probe = sorted[rapid.IntRange(0, len(sorted)-1).Draw(t, "probeIdx")]
			case 1:
				probe = sorted[rapid.IntRange(0, len(sorted)-1).Draw(t, "probeIdx")] + "-"
			default:
				probe = gen.Key().Draw(t, "probe")
			}
			for _, cmp := range allCmp {
				want, found := model.GetIn(sorted, probe, cmp)
				gk, gv, closer, err := store.Get(probe, kv.ComparisonType(cmp))
				if err != nil {
					if found || err != kv.ErrKeyNotFound {
						t.Fatalf("C11: %s: get(%q,%v) = %v, reference %q (found=%v); history=%v", where, probe, cmp, err, want, found, hist)
					}
					continue
				}
				if !found || gk != want || !bytes.Equal(gv, ref[want]) {
					t.Fatalf("C11: %s: get(%q,%v) = %q, reference %q (found=%v); history=%v", where, probe, cmp, gk, want, found, hist)
				}
				_ = closer.Close()
			}
			// range
			a, b := probe, sorted[rapid.IntRange(0, len(sorted)-1).Draw(t, "rangeEnd")]
			if model.CompareKeys(a, b) > 0 {
				a, b = b, a
			}
			if a == "" || b == "" {
				continue
			}
			var want []string
			for _, k := range sorted {
				if model.CompareKeys(k, a) >= 0 && model.CompareKeys(k, b) < 0 {
					want = append(want, k)
				}
			}
			rit, err := store.RangeScan(a, b)
			if err != nil {
				t.Fatalf("rangescan: %v", err)
			}
			var gotR []string
			for ; rit.Valid(); rit.Next() {
				gotR = append(gotR, rit.Key())
				v, _ := rit.Value()
				if !bytes.Equal(v, ref[rit.Key()]) {
					t.Fatalf("C11: %s: range scan returns a wrong value for %q; history=%v", where, rit.Key(), hist)
				}
			}
			_ = rit.Close()
			if strings.Join(gotR, "\x00") != strings.Join(want, "\x00") {
				t.Fatalf("C11: %s: range scan [%q,%q) = %d keys, reference %d (%s); history=%v", where, a, b, len(gotR), len(want), firstDiff(gotR, want), hist)
			}
			rev, err := store.KeyRangeScanReverse(a, b)
			if err != nil {
				t.Fatalf("reverse: %v", err)
			}
			var gotRev []string
			for ; rev.Valid(); rev.Prev() {
				gotRev = append(gotRev, rev.Key())
			}
			_ = rev.Close()
			for i, j := 0, len(gotRev)-1; i < j; i, j = i+1, j-1 {
				gotRev[i], gotRev[j] = gotRev[j], gotRev[i]
			}
			if strings.Join(gotRev, "\x00") != strings.Join(want, "\x00") {
				t.Fatalf("C11: %s: reverse range scan [%q,%q) = %d keys, reference %d; history=%v", where, a, b, len(gotRev), len(want), hist)
			}
		}
	}
	per := (len(keys) + nBatches - 1) / nBatches
	for bi := 0; bi < nBatches; bi++ {
		wb := store.NewWriteBatch()
		lo, hi := bi*per, (bi+1)*per
		if hi > len(keys) {
			hi = len(keys)
		}
		for _, k := range keys[lo:hi] {
			v := bytes.Repeat([]byte(k+"|"), valSize/(len(k)+1)+1)[:valSize]
			if err := wb.Put(k, v); err != nil {
				t.Fatalf("put: %v", err)
			}
			ref[k] = v
		}
		// deletes of earlier keys in later batches
		if bi > 0 {
			nd := rapid.IntRange(0, 10).Draw(t, "nDel")
			for i := 0; i < nd; i++ {
				k := keys[rapid.IntRange(0, lo-1).Draw(t, "delIdx")]
				if err := wb.Delete(k); err != nil {
					t.Fatalf("delete: %v", err)
				}
				delete(ref, k)
			}
			hist = append(hist, fmt.Sprintf("batch %d: +%d keys, %d deletes", bi, hi-lo, nd))
		}
		if err := wb.Commit(); err != nil {
			t.Fatalf("commit: %v", err)
		}
		_ = wb.Close()
		if rapid.IntRange(0, 3).Draw(t, "verifyBeforeFlush") == 0 {
			verify(fmt.Sprintf("batch %d before flush", bi))
		}
		if err := store.Flush(); err != nil {
			t.Fatalf("flush: %v", err)
		}
		hist = append(hist, "flush")
		verify(fmt.Sprintf("after flush %d", bi))
	}
	if rapid.Bool().Draw(t, "reopen") {
		_ = store.Close()
		store, err = f.NewKV("ns", 1)
		if err != nil {
			t.Fatalf("reopen: %v", err)
		}
		hist = append(hist, "reopen")
		verify("after reopen")
	}
	blocks := len(ref) * valSize / (64 * 1024)
	labels := []string{"engine"}
	if sepCrossing {
		labels = append(labels, "separator_between_adjacent_keys")
	}
	if blocks >= 3 {
		labels = append(labels, "ge3_blocks")
	}
	evid.Case("C11", blocks >= 3 && sepCrossing, strings.Join(hist, "; "), labels...)
}

func firstDiff(a, b []string) string {
	for i := 0; i < len(a) && i < len(b); i++ {
		if a[i] != b[i] {
			return fmt.Sprintf("index %d: got %q want %q", i, a[i], b[i])
		}
	}
	return fmt.Sprintf("lengths %d vs %d", len(a), len(b))
}

func TestC11_Engine(t *testing.T) {
	rapid.Check(t, runC11Engine)
}

var _ = proto.KeyComparisonType_EQUAL
