package kvx

import (
	"fmt"
	"os"
	"strings"
	"testing"

	"pgregory.net/rapid"

	"github.com/oxia-db/oxia/proto"

	"verifharness/evid"
	"verifharness/gen"
	"verifharness/model"
)

// runC12: request sequences against the real DB (through the exported callback chain that leader
// and follower both use) compared request by request with the sequential model.
func runC12(t *rapid.T) {
	dir := mkTemp(t, "c12-")
	defer os.RemoveAll(dir)
	env, err := openEnv(dir)
	if err != nil {
		t.Fatalf("open: %v", err)
	}
	defer env.close()
	m := model.New()
	pool := gen.Pool(t, 3, 10)
	var hist []string
	offset := int64(-1)
	ts := uint64(1_000_000)
	var sessions []int64
	multiOpKey, staleCond, bigRange, reopened := false, false, false, false
	logf := func(f string, a ...any) { hist = append(hist, fmt.Sprintf(f, a...)) }

	doWrite := func(req *proto.WriteRequest) {
		offset++
		ts += uint64(rapid.IntRange(0, 50).Draw(t, "tsInc"))
		logf("#%d %s", offset, gen.FormatRequest(req))
		before := m.Clone()
		resp, err := env.apply(req, offset, ts)
		if err != nil {
			t.Fatalf("C12: ProcessWrite returned an error: %v; history=%v", err, hist)
		}
		if _, err := m.Apply(req, resp, ts); err != nil {
			t.Fatalf("C12: %v; request=%s; keys before=%q; history=%v", err, gen.FormatRequest(req), before.SortedKeys(), hist)
		}
		// classification
		seen := map[string]int{}
		for _, p := range req.Puts {
			seen[p.Key]++
			if p.ExpectedVersionId != nil && *p.ExpectedVersionId >= 0 {
				if cur := before.Recs[p.Key]; cur == nil || cur.VersionId != *p.ExpectedVersionId {
					staleCond = true
				}
			}
		}
		for _, d := range req.Deletes {
			seen[d.Key]++
		}
		for _, n := range seen {
			if n > 1 {
				multiOpKey = true
			}
		}
		for _, dr := range req.DeleteRanges {
			if len(before.KeysInRange(dr.StartInclusive, dr.EndExclusive)) > 100 {
				bigRange = true
			}
		}
	}

	actions := map[string]func(*rapid.T){
		"write": func(t *rapid.T) {
			doWrite(gen.WriteRequest(t, m, gen.ReqOpts{Pool: pool, Sessions: sessions, IndexNames: []string{"idx", "idx0"}, Tag: newTag}))
		},
		"session": func(t *rapid.T) {
			// what the session manager writes when a session is created (id = its log offset) or ends
			if len(sessions) > 0 && rapid.Bool().Draw(t, "endSession") {
				id := sessions[rapid.IntRange(0, len(sessions)-1).Draw(t, "sid")]
				if !m.Sessions[id] {
					t.Skip("already dead")
				}
				var dels []*proto.DeleteRequest
				for _, k := range m.SortedKeys() {
					if r := m.Recs[k]; r.Session != nil && *r.Session == id {
						dels = append(dels, &proto.DeleteRequest{Key: k})
					}
				}
				sk := fmt.Sprintf("__oxia/session/%016x", id)
				dels = append(dels, &proto.DeleteRequest{Key: sk})
				doWrite(&proto.WriteRequest{Deletes: dels, DeleteRanges: []*proto.DeleteRangeRequest{{StartInclusive: sk + "/", EndExclusive: sk + "//"}}})
				return
			}
			id := offset + 1
			sessions = append(sessions, id)
			doWrite(&proto.WriteRequest{Puts: []*proto.PutRequest{{Key: fmt.Sprintf("__oxia/session/%016x", id), Value: []byte("meta")}}})
		},
		"bulk": func(t *rapid.T) {
			// 90..140 keys under one first segment so that later range deletes fall below, at and above the 100-key switch
			n := rapid.IntRange(90, 140).Draw(t, "bulkN")
			seg := rapid.SampledFrom([]string{"bulk", "b.", "q"}).Draw(t, "bulkSeg")
			req := &proto.WriteRequest{}
			for i := 0; i < n; i++ {
				req.Puts = append(req.Puts, &proto.PutRequest{Key: fmt.Sprintf("%s/%03d", seg, i), Value: []byte(newTag())})
			}
			doWrite(req)
			lo := rapid.IntRange(0, 20).Draw(t, "bulkLo")
			hi := lo + rapid.SampledFrom([]int{99, 100, 101, 60, 120}).Draw(t, "bulkSpan")
			doWrite(&proto.WriteRequest{DeleteRanges: []*proto.DeleteRangeRequest{{StartInclusive: fmt.Sprintf("%s/%03d", seg, lo), EndExclusive: fmt.Sprintf("%s/%03d", seg, hi)}}})
		},
		"reopen": func(t *rapid.T) {
			logf("reopen")
			if err := env.reopen(); err != nil {
				t.Fatalf("reopen: %v; history=%v", err, hist)
			}
			reopened = true
		},
		"": func(t *rapid.T) {
			for _, k := range pool {
				if err := checkGet(m, env, k, proto.KeyComparisonType_EQUAL); err != nil {
					t.Fatalf("C12: %v; history=%v", err, hist)
				}
			}
			if rapid.IntRange(0, 2).Draw(t, "probe") == 0 {
				a, b := gen.SafeRange(t, pool)
				if err := checkList(m, env.db, a, b); err != nil {
					t.Fatalf("C12: %v; history=%v", err, hist)
				}
				probe := gen.Key().Draw(t, "probeKey")
				cmp := rapid.SampledFrom(allCmp).Draw(t, "cmp")
				if err := checkGet(m, env, probe, cmp); err != nil {
					t.Fatalf("C12: %v; history=%v", err, hist)
				}
			}
		},
	}
	t.Repeat(actions)
	d, err := env.dump()
	if err != nil {
		t.Fatalf("dump: %v", err)
	}
	if err := checkUserState(m, d); err != nil {
		t.Fatalf("C12: final state: %v; history=%v", err, hist)
	}
	if err := env.reopen(); err != nil {
		t.Fatalf("reopen: %v", err)
	}
	d, err = env.dump()
	if err != nil {
		t.Fatalf("dump: %v", err)
	}
	if err := checkUserState(m, d); err != nil {
		t.Fatalf("C12: state after reopen: %v; history=%v", err, hist)
	}
	var labels []string
	for n, on := range map[string]bool{"multi_op_one_key": multiOpKey, "stale_conditional": staleCond, "range_over_100": bigRange, "reopen": reopened,
		"sessions": len(sessions) > 0} {
		if on {
			labels = append(labels, n)
		}
	}
	evid.Case("C12", multiOpKey || staleCond || bigRange, strings.Join(hist, "; "), labels...)
}

func TestC12_Model(t *testing.T) {
	rapid.Check(t, runC12)
}
