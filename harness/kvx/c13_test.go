package kvx

import (
	"fmt"
	"os"
	"strings"
	"testing"

	pb "google.golang.org/protobuf/proto"
	"pgregory.net/rapid"

	"github.com/oxia-db/oxia/proto"

	"verifharness/evid"
	"verifharness/gen"
	"verifharness/model"
)

const (
	kfSeqNoPartitionKey = gen.KfSeqNoPartitionKey
	kfSeqZeroDelta      = gen.KfSeqZeroDelta
	kfSeqFewerDeltas    = gen.KfSeqFewerDeltas
	kfSeqBadSuffix      = gen.KfSeqBadSuffix
)

func p64(v int64) *int64    { return &v }
func pstr(v string) *string { return &v }

// comparable dump: everything decoded where serialization is not deterministic (notification maps).
func comparableDump(d []rawKV) []string {
	var out []string
	for _, e := range d {
		if strings.HasPrefix(e.Key, "__oxia/notifications/") {
			nb := &proto.NotificationBatch{}
			if err := nb.UnmarshalVT(e.Value); err == nil {
				out = append(out, e.Key+" => "+model.FormatBatch(nb)+fmt.Sprintf(" ts=%d shard=%d", nb.Timestamp, nb.Shard))
				continue
			}
		}
		out = append(out, e.Key+" => "+string(e.Value))
	}
	return out
}

func diffDumps(a, b []string) string {
	for i := 0; i < len(a) && i < len(b); i++ {
		if a[i] != b[i] {
			return fmt.Sprintf("record %d: %q vs %q", i, a[i], b[i])
		}
	}
	if len(a) != len(b) {
		return fmt.Sprintf("%d vs %d records", len(a), len(b))
	}
	return ""
}

// runC13: every request a client can put on the wire must be applicable: ProcessWrite returns no
// infrastructure error and one status per operation, identically on a second replica.
func runC13(t *rapid.T) {
	dirA, dirB := mkTemp(t, "c13a-"), mkTemp(t, "c13b-")
	defer os.RemoveAll(dirA)
	defer os.RemoveAll(dirB)
	a, err := openEnv(dirA)
	if err != nil {
		t.Fatalf("open: %v", err)
	}
	defer a.close()
	b, err := openEnv(dirB)
	if err != nil {
		t.Fatalf("open: %v", err)
	}
	defer b.close()
	pool := gen.Pool(t, 3, 8)
	var hist []string
	var sessions []int64
	unusualSeen := false
	n := rapid.IntRange(1, 12).Draw(t, "nRequests")
	for off := int64(0); off < int64(n); off++ {
		var req *proto.WriteRequest
		switch rapid.IntRange(0, 5).Draw(t, "kind") {
		case 0: // well-formed prior content
			req = gen.WriteRequest(t, model.New(), gen.ReqOpts{Pool: pool, Sessions: sessions, IndexNames: []string{"idx"}, SeqPrefix: []string{"seq", pool[0]}, Tag: newTag})
		case 1:
			sessions = append(sessions, off)
			req = &proto.WriteRequest{Puts: []*proto.PutRequest{{Key: fmt.Sprintf("__oxia/session/%016x", off), Value: []byte("m")}}}
		default:
			var u bool
			req, u = gen.HostileRequest(t, pool, sessions, newTag)
			unusualSeen = unusualSeen || u
		}
		if evid.Known(kfSeqFewerDeltas) || evid.Known(kfSeqBadSuffix) {
			for _, p := range req.Puts {
				if len(p.SequenceKeyDelta) > 0 && !strings.HasPrefix(p.Key, "sq") {
					evid.Excluded("C13", kfSeqFewerDeltas+"|"+kfSeqBadSuffix)
					p.Key = fmt.Sprintf("sq%d", len(p.SequenceKeyDelta))
				}
			}
		}
		hist = append(hist, fmt.Sprintf("#%d %s", off, gen.FormatRequest(req)))
		ts := uint64(1000 + off)
		ra, errA := a.apply(req, off, ts)
		if errA != nil {
			t.Fatalf("C13: applying a client-sendable request failed with an infrastructure error: %v; request=%s; history=%v", errA, gen.FormatRequest(req), hist)
		}
		if len(ra.Puts) != len(req.Puts) || len(ra.Deletes) != len(req.Deletes) || len(ra.DeleteRanges) != len(req.DeleteRanges) {
			t.Fatalf("C13: response carries %d/%d/%d statuses for %d/%d/%d operations; history=%v", len(ra.Puts), len(ra.Deletes), len(ra.DeleteRanges),
				len(req.Puts), len(req.Deletes), len(req.DeleteRanges), hist)
		}
		rb, errB := b.apply(req, off, ts)
		if errB != nil {
			t.Fatalf("C13: second replica failed on the same request: %v; history=%v", errB, hist)
		}
		if !pb.Equal(ra, rb) {
			t.Fatalf("C13: two replicas answered differently to the same log: %v vs %v; history=%v", ra, rb, hist)
		}
	}
	// reopen one replica (restart replay safety at DB level) and compare full content
	if err := a.reopen(); err != nil {
		t.Fatalf("C13: database cannot be reopened after the requests: %v; history=%v", err, hist)
	}
	da, err := a.dump()
	if err != nil {
		t.Fatalf("dump: %v", err)
	}
	db, err := b.dump()
	if err != nil {
		t.Fatalf("dump: %v", err)
	}
	if d := diffDumps(comparableDump(da), comparableDump(db)); d != "" {
		t.Fatalf("C13: replicas diverge after the same log: %s; history=%v", d, hist)
	}
	labels := []string{}
	if unusualSeen {
		labels = append(labels, "outside_client_library")
	}
	evid.Case("C13", unusualSeen, strings.Join(hist, "; "), labels...)
}

func TestC13_Structured(t *testing.T) {
	rapid.Check(t, runC13)
}

// TestKF_C13 re-confirms the listed known findings of C13 with scripted inputs (no generator):
// each prints its KNOWN-FINDING line only if the failure still occurs.
func TestKF_C13(t *testing.T) {
	type kf struct {
		sig   string
		prior []*proto.WriteRequest
		req   *proto.WriteRequest
		what  string
	}
	seqPut := func(key string, pk *string, deltas ...uint64) *proto.WriteRequest {
		return &proto.WriteRequest{Puts: []*proto.PutRequest{{Key: key, Value: []byte("v"), PartitionKey: pk, SequenceKeyDelta: deltas}}}
	}
	cases := []kf{
		{kfSeqFewerDeltas, []*proto.WriteRequest{seqPut("s", pstr("p"), 1, 1)}, seqPut("s", pstr("p"), 1), "a sequence put with fewer deltas than the existing key has suffixes fails in application with an infrastructure error"},
		{kfSeqBadSuffix, []*proto.WriteRequest{{Puts: []*proto.PutRequest{{Key: "s-+", Value: []byte("v")}}}}, seqPut("s", pstr("p"), 1), "a sequence put over a prefix whose highest existing key has a non-numeric suffix ('s-+') fails in application with an infrastructure error"},
	}
	for _, c := range cases {
		if !evid.Known(c.sig) {
			continue
		}
		dir, _ := os.MkdirTemp(tmpRoot, "kf13-")
		env, err := openEnv(dir)
		if err != nil {
			t.Fatalf("open: %v", err)
		}
		off := int64(0)
		for _, r := range c.prior {
			if _, err := env.apply(r, off, 1000); err != nil {
				t.Fatalf("prior: %v", err)
			}
			off++
		}
		if _, err := env.apply(c.req, off, 1000); err != nil {
			evid.KnownFinding("C13", c.sig+": "+c.what)
		}
		env.close()
		_ = os.RemoveAll(dir)
	}
}
