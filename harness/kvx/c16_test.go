package kvx

import (
	"fmt"
	"os"
	"strings"
	"testing"
	"time"

	"pgregory.net/rapid"

	"github.com/oxia-db/oxia/proto"
	"github.com/oxia-db/oxia/server/kv"

	"verifharness/evid"
	"verifharness/gen"
	"verifharness/model"
)

type seqSub struct {
	prefix string
	w      kv.SequenceWaiter
	last   string // last value observed
	have   bool
}

// drain reads whatever the subscriber channel holds right now (non-blocking).
func (s *seqSub) drain() (string, bool) {
	select {
	case v, ok := <-s.w.Ch():
		if !ok {
			return "", false
		}
		return v, true
	default:
		return "", false
	}
}

// runC16: sequence puts against the model (exact key arithmetic, freshness, monotonicity are
// checked by model.Apply) and subscribers checked at quiescence after every completed write.
func runC16(t *rapid.T) {
	dir := mkTemp(t, "c16-")
	defer os.RemoveAll(dir)
	env, err := openEnv(dir)
	if err != nil {
		t.Fatalf("open: %v", err)
	}
	defer func() { env.close() }()
	m := model.New()
	prefixes := []string{"s", "q/x", "s1"}[:rapid.IntRange(1, 3).Draw(t, "nPrefixes")]
	pool := []string{"k0", "k1", "a/b", "z"}
	var hist []string
	var subs []*seqSub
	latest := map[string]string{} // prefix -> latest generated key (since the beginning)
	offset := int64(-1)
	ts := uint64(1_000_000)
	multiPut, deletedMax, raced, hugeSeen := false, false, false, false
	seqPuts := map[string]int{}
	logf := func(f string, a ...any) { hist = append(hist, fmt.Sprintf(f, a...)) }

	checkSubs := func(generated map[string]string) {
		for _, s := range subs {
			v, got := s.drain()
			want, fresh := generated[s.prefix]
			switch {
			case fresh && !got:
				t.Fatalf("C16: subscriber of %q observed nothing after key %q was generated; history=%v", s.prefix, want, hist)
			case fresh && v != want:
				t.Fatalf("C16: subscriber of %q observed %q, latest generated key is %q; history=%v", s.prefix, v, want, hist)
			case !fresh && got:
				t.Fatalf("C16: subscriber of %q observed %q although no new key was generated since its last read; history=%v", s.prefix, v, hist)
			}
			if got {
				s.last, s.have = v, true
			}
		}
	}

	doWrite := func(req *proto.WriteRequest) map[string]string {
		offset++
		ts += 10
		logf("#%d %s", offset, gen.FormatRequest(req))
		resp, err := env.apply(req, offset, ts)
		if err != nil {
			t.Fatalf("C16: ProcessWrite error: %v; history=%v", err, hist)
		}
		eff, err := m.Apply(req, resp, ts)
		if err != nil {
			t.Fatalf("C16: %v; history=%v", err, hist)
		}
		generated := map[string]string{}
		i := 0
		perPrefix := map[string]int{}
		for _, p := range req.Puts {
			if len(p.SequenceKeyDelta) > 0 {
				generated[p.Key] = eff.SeqKeys[i]
				latest[p.Key] = eff.SeqKeys[i]
				perPrefix[p.Key]++
				seqPuts[p.Key]++
				i++
			}
		}
		for _, n := range perPrefix {
			if n > 1 {
				multiPut = true
			}
		}
		return generated
	}

	hugeUsed := map[string]bool{}
	seqRequest := func(t *rapid.T) *proto.WriteRequest {
		req := &proto.WriteRequest{}
		n := rapid.IntRange(1, 3).Draw(t, "nSeqPuts")
		shadow := m.Clone()
		for i := 0; i < n; i++ {
			prefix := prefixes[rapid.IntRange(0, len(prefixes)-1).Draw(t, "prefix")]
			_, suf := shadow.HighestSequenceKey(prefix)
			// also account for keys generated earlier in this very request
			nSuf := len(suf)
			for _, q := range req.Puts {
				if q.Key == prefix && len(q.SequenceKeyDelta) > nSuf {
					nSuf = len(q.SequenceKeyDelta)
				}
			}
			lo := nSuf
			if lo < 1 {
				lo = 1
			}
			nd := rapid.IntRange(lo, 3).Draw(t, "nDeltas")
			p := &proto.PutRequest{Key: prefix, Value: []byte(newTag()), PartitionKey: pstr(prefix)}
			for j := 0; j < nd; j++ {
				d := uint64(rapid.IntRange(0, 7).Draw(t, "delta"))
				if j == 0 && d == 0 {
					d = 1
				}
				if rapid.IntRange(0, 20).Draw(t, "bigDelta") == 0 {
					d = 1 << 40
				}
				// one jump per prefix and level to the region where the suffix needs 19-20 significant digits and
				// crosses 2^63 (signed/unsigned confusion, width of the zero padding); only one, so that the sum
				// stays below 2^64 - sequence values are 64-bit and a sum beyond that is outside the domain
				hk := fmt.Sprintf("%s/%d", prefix, j)
				if !hugeUsed[hk] && rapid.IntRange(0, 11).Draw(t, "hugeDelta") == 0 {
					hugeUsed[hk] = true
					hugeSeen = true
					d = rapid.SampledFrom([]uint64{1 << 62, 1<<63 - 2, 1<<63 - 1, 1 << 63, 1<<63 + 1, 9999999999999999999, 10000000000000000000}).Draw(t, "huge")
				}
				p.SequenceKeyDelta = append(p.SequenceKeyDelta, d)
			}
			req.Puts = append(req.Puts, p)
		}
		if rapid.Bool().Draw(t, "withPlain") {
			req.Puts = append(req.Puts, &proto.PutRequest{Key: pool[rapid.IntRange(0, len(pool)-1).Draw(t, "plain")], Value: []byte(newTag())})
		}
		return req
	}

	actions := map[string]func(*rapid.T){
		"seqPut": func(t *rapid.T) {
			checkSubs(doWrite(seqRequest(t)))
		},
		"deleteMax": func(t *rapid.T) {
			prefix := prefixes[rapid.IntRange(0, len(prefixes)-1).Draw(t, "prefix")]
			hi, _ := m.HighestSequenceKey(prefix)
			if hi == "" {
				t.Skip("no key")
			}
			deletedMax = true
			checkSubs(doWrite(&proto.WriteRequest{Deletes: []*proto.DeleteRequest{{Key: hi}}}))
		},
		"rangeDelete": func(t *rapid.T) {
			prefix := prefixes[rapid.IntRange(0, len(prefixes)-1).Draw(t, "prefix")]
			lo := uint64(rapid.IntRange(0, 20).Draw(t, "lo"))
			hi := lo + uint64(rapid.IntRange(1, 20).Draw(t, "span"))
			checkSubs(doWrite(&proto.WriteRequest{DeleteRanges: []*proto.DeleteRangeRequest{{
				StartInclusive: fmt.Sprintf("%s-%020d", prefix, lo), EndExclusive: fmt.Sprintf("%s-%020d", prefix, hi)}}}))
		},
		"subscribe": func(t *rapid.T) {
			if len(subs) >= 4 {
				t.Skip("enough subscribers")
			}
			prefix := prefixes[rapid.IntRange(0, len(prefixes)-1).Draw(t, "prefix")]
			w, err := env.db.GetSequenceUpdates(prefix)
			if err != nil {
				t.Fatalf("GetSequenceUpdates: %v", err)
			}
			s := &seqSub{prefix: prefix, w: w}
			logf("subscribe(%q)", prefix)
			// "the channel will report the current latest sequence for a given key"
			v, got := s.drain()
			hi, _ := m.HighestSequenceKey(prefix)
			if hi != "" && (!got || v != hi) {
				t.Fatalf("C16: new subscriber of %q observed %q (got=%v), highest existing key is %q; history=%v", prefix, v, got, hi, hist)
			}
			if hi == "" && got {
				t.Fatalf("C16: new subscriber of %q observed %q although the sequence is empty; history=%v", prefix, v, hist)
			}
			subs = append(subs, s)
		},
		"unsubscribe": func(t *rapid.T) {
			if len(subs) == 0 {
				t.Skip("none")
			}
			i := rapid.IntRange(0, len(subs)-1).Draw(t, "sub")
			_ = subs[i].w.Close()
			logf("unsubscribe(%q)", subs[i].prefix)
			subs = append(subs[:i], subs[i+1:]...)
		},
		"subscribeDuringWrite": func(t *rapid.T) {
			// a subscriber attaches while a sequence put is between key generation and commit
			if evid.Known(kfSeqSubscribeRace) {
				evid.Excluded("C16", kfSeqSubscribeRace)
				t.Skip("excluded by listed known finding")
			}
			if len(subs) >= 4 {
				t.Skip("enough subscribers")
			}
			req := seqRequest(t)
			prefix := req.Puts[0].Key
			parked, release := make(chan struct{}), make(chan struct{})
			first := true
			env.factory.setHooks(func(kv.KV) {
				if first {
					first = false
					close(parked)
					<-release
				}
			}, nil)
			var generated map[string]string
			done := make(chan struct{})
			go func() {
				defer close(done)
				generated = doWrite(req)
			}()
			select {
			case <-parked:
			case <-time.After(10 * time.Second):
				close(release)
				<-done
				env.factory.setHooks(nil, nil)
				t.Skip("inconclusive: commit gate not reached")
			}
			// The subscription is attempted while the write is parked. An implementation may make it wait for the
			// commit (then it returns only after the gate is released) or let it through: both are fine as long as
			// the subscriber ends up with the latest key.
			type subRes struct {
				w   kv.SequenceWaiter
				err error
			}
			subCh := make(chan subRes, 1)
			go func() {
				w, err := env.db.GetSequenceUpdates(prefix)
				subCh <- subRes{w, err}
			}()
			var sr subRes
			select {
			case sr = <-subCh:
				close(release)
			case <-time.After(8 * time.Millisecond):
				close(release)
				select {
				case sr = <-subCh:
				case <-time.After(10 * time.Second):
					<-done
					env.factory.setHooks(nil, nil)
					t.Fatalf("C16: GetSequenceUpdates(%q) did not return within 10 s after the concurrent write completed; history=%v", prefix, hist)
				}
			}
			w, err := sr.w, sr.err
			<-done
			env.factory.setHooks(nil, nil)
			if err != nil {
				t.Fatalf("GetSequenceUpdates: %v", err)
			}
			logf("subscribe(%q) while #%d was between key generation and commit", prefix, offset)
			raced = true
			s := &seqSub{prefix: prefix, w: w}
			subs = append(subs, s)
			// at quiescence every subscriber (old and new) must hold the latest generated key
			for _, sub := range subs {
				v, got := sub.drain()
				want, fresh := generated[sub.prefix]
				if sub == s {
					want, fresh = latest[prefix], true
				}
				if fresh && (!got || v != want) {
					t.Fatalf("C16: at quiescence subscriber of %q holds %q (got=%v), latest generated key is %q; history=%v", sub.prefix, v, got, want, hist)
				}
				if !fresh && got {
					t.Fatalf("C16: subscriber of %q observed %q although nothing new was generated; history=%v", sub.prefix, v, hist)
				}
			}
		},
		"reopen": func(t *rapid.T) {
			for _, s := range subs {
				_ = s.w.Close()
			}
			subs = nil
			logf("reopen")
			if err := env.reopen(); err != nil {
				t.Fatalf("reopen: %v", err)
			}
		},
	}
	t.Repeat(actions)
	for _, s := range subs {
		_ = s.w.Close()
	}
	d, err := env.dump()
	if err != nil {
		t.Fatalf("dump: %v", err)
	}
	if err := checkUserState(m, d); err != nil {
		t.Fatalf("C16: final state: %v; history=%v", err, hist)
	}
	two := false
	for _, n := range seqPuts {
		if n >= 2 {
			two = true
		}
	}
	var labels []string
	for n, on := range map[string]bool{"multi_put_one_prefix": multiPut, "deleted_max": deletedMax, "subscribe_during_write": raced, "subscribers": len(subs) > 0, "suffix_beyond_2^62": hugeSeen} {
		if on {
			labels = append(labels, n)
		}
	}
	evid.Case("C16", two && (deletedMax || multiPut), strings.Join(hist, "; "), labels...)
}

const kfSeqSubscribeRace = "C16:subscribe-between-key-generation-and-commit"

func TestC16_Sequences(t *testing.T) {
	rapid.Check(t, runC16)
}

// TestKF_C16 re-confirms the listed finding with a scripted schedule.
func TestKF_C16(t *testing.T) {
	if !evid.Known(kfSeqSubscribeRace) {
		return
	}
	dir, _ := os.MkdirTemp(tmpRoot, "kf16-")
	defer os.RemoveAll(dir)
	env, err := openEnv(dir)
	if err != nil {
		t.Fatalf("open: %v", err)
	}
	defer env.close()
	seq := func(d uint64) *proto.WriteRequest {
		return &proto.WriteRequest{Puts: []*proto.PutRequest{{Key: "s", Value: []byte("v"), PartitionKey: pstr("s"), SequenceKeyDelta: []uint64{d}}}}
	}
	if _, err := env.apply(seq(1), 0, 1000); err != nil {
		t.Fatalf("apply: %v", err)
	}
	parked, release := make(chan struct{}), make(chan struct{})
	env.factory.setHooks(func(kv.KV) { close(parked); <-release }, nil)
	done := make(chan string, 1)
	go func() {
		r, err := env.apply(seq(5), 1, 1001)
		if err != nil || r.Puts[0].Key == nil {
			done <- ""
			return
		}
		done <- *r.Puts[0].Key
	}()
	select {
	case <-parked:
	case <-time.After(10 * time.Second):
		close(release)
		return
	}
	w, err := env.db.GetSequenceUpdates("s")
	close(release)
	latest := <-done
	env.factory.setHooks(nil, nil)
	if err != nil || latest == "" {
		return
	}
	defer w.Close()
	select {
	case v := <-w.Ch():
		if v != latest {
			evid.KnownFinding("C16", kfSeqSubscribeRace+": a GetSequenceUpdates subscriber that attaches while a sequence put is between key generation and batch commit ends up holding the previous key ("+v+") and never observes the latest generated key ("+latest+")")
		}
	default:
		evid.KnownFinding("C16", kfSeqSubscribeRace+": subscriber holds nothing at quiescence")
	}
}
