//go:build verif

package kvx

import (
	"context"
	"fmt"
	"os"
	"strings"
	"testing"
	"time"

	"pgregory.net/rapid"

	"github.com/oxia-db/oxia/proto"
	"github.com/oxia-db/oxia/server/kv"

	"verifharness/evid"
	"verifharness/gen"
	"verifharness/model"
)

const (
	kfNotifEqualStart = "C17:two-delete-ranges-with-equal-start-in-one-request"
	kfNotifKeyVsRange = "C17:put-and-delete-range-starting-at-the-same-key-in-one-request"
)

type loggedReq struct {
	offset int64
	ts     uint64
	eff    *model.Effects
	desc   string
}

// collisions classifies the two shapes of listed known findings in a request.
func notifCollisions(req *proto.WriteRequest) (equalStart, keyVsRange bool) {
	starts := map[string]int{}
	for _, r := range req.DeleteRanges {
		starts[r.StartInclusive]++
	}
	for _, n := range starts {
		if n > 1 {
			equalStart = true
		}
	}
	for _, p := range req.Puts {
		if starts[p.Key] > 0 {
			keyVsRange = true
		}
	}
	for _, d := range req.Deletes {
		if starts[d.Key] > 0 {
			keyVsRange = true
		}
	}
	return
}

// runC17: notification batches stored by the database against the model's net effect of each
// request; reads from drawn offsets; trimming under an injected clock; reopen.
func runC17(t *rapid.T) {
	dir := mkTemp(t, "c17-")
	defer os.RemoveAll(dir)
	env, err := openEnv(dir)
	if err != nil {
		t.Fatalf("open: %v", err)
	}
	defer func() { env.close() }()
	m := model.New()
	pool := gen.Pool(t, 3, 8)
	var hist []string
	var log []*loggedReq
	var sessions []int64
	offset := int64(-1)
	ts := uint64(1_000_000)
	firstKept := int64(0) // lowest offset whose batch must still be present
	trimmed, resumed, reopened := false, false, false
	logf := func(f string, a ...any) { hist = append(hist, fmt.Sprintf(f, a...)) }

	read := func(start int64) []*proto.NotificationBatch {
		ctx, cancel := context.WithTimeout(context.Background(), 10*time.Second)
		defer cancel()
		res, err := env.db.ReadNextNotifications(ctx, start)
		if err != nil {
			t.Fatalf("C17: ReadNextNotifications(%d): %v; history=%v", start, err, hist)
		}
		return res
	}
	verifyFrom := func(start int64) {
		if start > offset {
			return
		}
		res := read(start)
		expect := start
		if expect < firstKept {
			// batches below the retention horizon may be gone; whatever is returned must still be in order
			if len(res) > 0 && res[0].Offset > expect {
				expect = res[0].Offset
			}
			if len(res) > 0 && res[0].Offset > firstKept {
				t.Fatalf("C17: reading from %d skips batch %d which is within the retention time; history=%v", start, firstKept, hist)
			}
			if len(res) == 0 {
				expect = firstKept // everything below the horizon is gone; nothing above it may be missing
			}
		}
		for _, nb := range res {
			if nb.Offset != expect {
				t.Fatalf("C17: reading from %d: got batch for offset %d, expected %d (one batch per committed request, in order); history=%v", start, nb.Offset, expect, hist)
			}
			lr := log[nb.Offset]
			if nb.Timestamp != lr.ts || nb.Shard != 1 {
				t.Fatalf("C17: batch %d carries timestamp %d shard %d, entry had %d; history=%v", nb.Offset, nb.Timestamp, nb.Shard, lr.ts, hist)
			}
			if err := model.CheckNotifications(lr.eff, nb); err != nil {
				t.Fatalf("C17: batch of offset %d (%s): %v; history=%v", nb.Offset, lr.desc, err, hist)
			}
			expect++
		}
		if len(res) < 100 && expect != offset+1 {
			t.Fatalf("C17: reading from %d stopped at offset %d, last committed is %d; history=%v", start, expect-1, offset, hist)
		}
	}

	doWrite := func(req *proto.WriteRequest) {
		eq, kr := notifCollisions(req)
		if eq && evid.Known(kfNotifEqualStart) {
			evid.Excluded("C17", kfNotifEqualStart)
			req.DeleteRanges = req.DeleteRanges[:1]
			eq, kr = notifCollisions(req)
		}
		if kr && evid.Known(kfNotifKeyVsRange) {
			evid.Excluded("C17", kfNotifKeyVsRange)
			req.DeleteRanges = nil
		}
		offset++
		ts += uint64(rapid.IntRange(0, 100).Draw(t, "tsInc"))
		desc := gen.FormatRequest(req)
		logf("#%d@%d %s", offset, ts, desc)
		resp, err := env.apply(req, offset, ts)
		if err != nil {
			t.Fatalf("C17: ProcessWrite error: %v; history=%v", err, hist)
		}
		eff, err := m.Apply(req, resp, ts)
		if err != nil {
			t.Fatalf("C17: %v; history=%v", err, hist)
		}
		log = append(log, &loggedReq{offset, ts, eff, desc})
	}

	actions := map[string]func(*rapid.T){
		"write": func(t *rapid.T) {
			doWrite(gen.WriteRequest(t, m, gen.ReqOpts{Pool: pool, Sessions: sessions, Tag: newTag}))
			verifyFrom(offset)
		},
		"session": func(t *rapid.T) {
			id := offset + 1
			sessions = append(sessions, id)
			doWrite(&proto.WriteRequest{Puts: []*proto.PutRequest{{Key: fmt.Sprintf("__oxia/session/%016x", id), Value: []byte("meta")}}})
		},
		"sessionEnd": func(t *rapid.T) {
			if len(sessions) == 0 {
				t.Skip("none")
			}
			id := sessions[rapid.IntRange(0, len(sessions)-1).Draw(t, "sid")]
			if !m.Sessions[id] {
				t.Skip("dead")
			}
			var dels []*proto.DeleteRequest
			for _, k := range m.SortedKeys() {
				if r := m.Recs[k]; r.Session != nil && *r.Session == id {
					dels = append(dels, &proto.DeleteRequest{Key: k})
				}
			}
			sk := fmt.Sprintf("__oxia/session/%016x", id)
			dels = append(dels, &proto.DeleteRequest{Key: sk})
			doWrite(&proto.WriteRequest{Deletes: dels, DeleteRanges: []*proto.DeleteRangeRequest{{StartInclusive: sk + "/", EndExclusive: sk + "//"}}})
		},
		"resume": func(t *rapid.T) {
			if offset < 0 {
				t.Skip("empty")
			}
			start := rapid.Int64Range(0, offset).Draw(t, "start")
			if start > 0 && start < offset {
				resumed = true
			}
			verifyFrom(start)
		},
		"trim": func(t *rapid.T) {
			if offset < 0 {
				t.Skip("empty")
			}
			retention := time.Duration(rapid.IntRange(1, 400).Draw(t, "retentionMs")) * time.Millisecond
			now := int64(log[0].ts) + rapid.Int64Range(-50, int64(ts-log[0].ts)+500).Draw(t, "nowDelta")
			env.clock.Set(now)
			logf("trim(now=%d,retention=%dms)", now, retention.Milliseconds())
			if err := kv.VerifTrimNotificationsOnce(env.db, retention, env.clock); err != nil {
				t.Fatalf("C17: trimming failed: %v; history=%v", err, hist)
			}
			cutoff := now - retention.Milliseconds()
			// every batch with timestamp > cutoff must survive
			newFirst := firstKept
			for newFirst <= offset && int64(log[newFirst].ts) <= cutoff {
				newFirst++
			}
			// the trimmer may keep more than required, never less: what must remain starts at newFirst
			if newFirst > firstKept {
				firstKept = newFirst
			}
			res := read(0)
			if len(res) > 0 && res[0].Offset > 0 {
				trimmed = true
			}
			verifyFrom(0)
		},
		"reopen": func(t *rapid.T) {
			logf("reopen")
			if err := env.reopen(); err != nil {
				t.Fatalf("reopen: %v", err)
			}
			reopened = true
			verifyFrom(firstKept)
		},
	}
	t.Repeat(actions)
	verifyFrom(firstKept)
	verifyFrom(0)
	var labels []string
	for n, on := range map[string]bool{"trim_removed": trimmed, "resume_interior": resumed, "reopen": reopened} {
		if on {
			labels = append(labels, n)
		}
	}
	evid.Case("C17", (resumed && reopened) || trimmed, strings.Join(hist, "; "), labels...)
}

func TestC17_Content(t *testing.T) {
	rapid.Check(t, runC17)
}

// TestKF_C17 re-confirms the listed finding with a scripted input.
func TestKF_C17(t *testing.T) {
	if !evid.Known(kfNotifKeyVsRange) {
		return
	}
	dir, _ := os.MkdirTemp(tmpRoot, "kf17-")
	defer os.RemoveAll(dir)
	env, err := openEnv(dir)
	if err != nil {
		t.Fatalf("open: %v", err)
	}
	defer env.close()
	req := &proto.WriteRequest{Puts: []*proto.PutRequest{{Key: "a", Value: []byte("v")}},
		DeleteRanges: []*proto.DeleteRangeRequest{{StartInclusive: "a", EndExclusive: "a"}}}
	if _, err := env.apply(req, 0, 1000); err != nil {
		t.Fatalf("apply: %v", err)
	}
	ctx, cancel := context.WithTimeout(context.Background(), 5*time.Second)
	defer cancel()
	res, err := env.db.ReadNextNotifications(ctx, 0)
	if err != nil || len(res) != 1 {
		return
	}
	if n := res[0].Notifications["a"]; n == nil || n.Type != proto.NotificationType_KEY_CREATED {
		evid.KnownFinding("C17", kfNotifKeyVsRange+": request {put 'a'; delete-range ['a','a')} creates key 'a' (the range is empty) but its notification batch holds only 'a' -> KEY_RANGE_DELETED: batch entries are a map keyed by key, the range entry replaces the put's entry, so the creation of 'a' is never announced")
	}
}
