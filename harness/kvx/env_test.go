package kvx

import (
	"bytes"
	"fmt"
	"os"
	"sort"
	"strings"
	"sync"
	"sync/atomic"

	"pgregory.net/rapid"

	time2 "github.com/oxia-db/oxia/common/time"
	"github.com/oxia-db/oxia/proto"
	"github.com/oxia-db/oxia/server"
	"github.com/oxia-db/oxia/server/kv"

	"verifharness/model"
)

var tagCounter atomic.Int64

// capFactory wraps the real Pebble factory and remembers the KV handles it hands out, so that
// oracles can dump the raw ordered content of a database through the public KV interface.
type capFactory struct {
	kv.Factory
	mu           sync.Mutex
	kvs          []kv.KV
	beforeCommit func(kv.KV)
	afterCommit  func(kv.KV, error)
}

func (f *capFactory) NewKV(ns string, shard int64) (kv.KV, error) {
	k, err := f.Factory.NewKV(ns, shard)
	if err == nil {
		k = &hookKV{KV: k, f: f}
		f.mu.Lock()
		f.kvs = append(f.kvs, k)
		f.mu.Unlock()
	}
	return k, err
}

// hookKV / hookBatch let a test observe and pause WriteBatch.Commit (the only instant at which the
// database content changes) through the public kv interfaces.
type hookKV struct {
	kv.KV
	f *capFactory
}

func (k *hookKV) NewWriteBatch() kv.WriteBatch {
	return &hookBatch{WriteBatch: k.KV.NewWriteBatch(), k: k}
}

type hookBatch struct {
	kv.WriteBatch
	k *hookKV
}

func (b *hookBatch) Commit() error {
	b.k.f.mu.Lock()
	before, after := b.k.f.beforeCommit, b.k.f.afterCommit
	b.k.f.mu.Unlock()
	if before != nil {
		before(b.k.KV)
	}
	err := b.WriteBatch.Commit()
	if after != nil {
		after(b.k.KV, err)
	}
	return err
}

func (f *capFactory) setHooks(before func(kv.KV), after func(kv.KV, error)) {
	f.mu.Lock()
	f.beforeCommit, f.afterCommit = before, after
	f.mu.Unlock()
}

func (f *capFactory) last() kv.KV {
	f.mu.Lock()
	defer f.mu.Unlock()
	return f.kvs[len(f.kvs)-1]
}

type dbEnv struct {
	dir     string
	factory *capFactory
	db      kv.DB
	clock   *time2.MockedClock
}

func openEnv(dir string) (*dbEnv, error) {
	f, err := kv.NewPebbleKVFactory(&kv.FactoryOptions{DataDir: dir, CacheSizeMB: 1})
	if err != nil {
		return nil, err
	}
	e := &dbEnv{dir: dir, factory: &capFactory{Factory: f}, clock: &time2.MockedClock{}}
	e.db, err = kv.NewDB("ns", 1, e.factory, 0, e.clock)
	if err != nil {
		_ = f.Close()
		return nil, err
	}
	return e, nil
}

func (e *dbEnv) close() {
	if e.db != nil {
		_ = e.db.Close()
		e.db = nil
	}
	if e.factory != nil {
		_ = e.factory.Close()
		e.factory = nil
	}
}

func (e *dbEnv) reopen() error {
	dir := e.dir
	e.close()
	n, err := openEnv(dir)
	if err != nil {
		return err
	}
	*e = *n
	return nil
}

func (e *dbEnv) apply(req *proto.WriteRequest, offset int64, ts uint64) (*proto.WriteResponse, error) {
	// the server applies its own unmarshalled copy of a request (the DB keeps pooled objects that alias the request buffers)
	return e.db.ProcessWrite(req.CloneVT(), offset, ts, server.WrapperUpdateOperationCallback)
}

type rawKV struct {
	Key   string
	Value []byte
}

// dump returns every stored (key, value) in storage order through the public KV interface.
func (e *dbEnv) dump() ([]rawKV, error) {
	it, err := e.factory.last().RangeScan("", "")
	if err != nil {
		return nil, err
	}
	defer it.Close()
	var out []rawKV
	for ; it.Valid(); it.Next() {
		v, err := it.Value()
		if err != nil {
			return nil, err
		}
		out = append(out, rawKV{it.Key(), append([]byte{}, v...)})
	}
	return out, nil
}

func mkTemp(t *rapid.T, prefix string) string {
	d, err := os.MkdirTemp(tmpRoot, prefix)
	if err != nil {
		t.Fatalf("mkdtemp: %v", err)
	}
	return d
}

func newTag() string {
	return fmt.Sprintf("v%d", tagCounter.Add(1))
}

// checkUserState compares every user record of the dump with the model (full ordered comparison).
func checkUserState(m *model.Shard, dump []rawKV) error {
	var userKeys []string
	for _, kvp := range dump {
		if model.IsInternal(kvp.Key) {
			continue
		}
		userKeys = append(userKeys, kvp.Key)
		se := &proto.StorageEntry{}
		if err := se.UnmarshalVT(kvp.Value); err != nil {
			return fmt.Errorf("user key %q holds an undecodable record: %v", kvp.Key, err)
		}
		v := &proto.Version{VersionId: se.VersionId, ModificationsCount: se.ModificationsCount, CreatedTimestamp: se.CreationTimestamp,
			ModifiedTimestamp: se.ModificationTimestamp, SessionId: se.SessionId, ClientIdentity: se.ClientIdentity}
		if err := m.CheckRecord(kvp.Key, se.Value, true, v); err != nil {
			return err
		}
		r := m.Recs[kvp.Key]
		if len(se.SecondaryIndexes) != len(r.Indexes) {
			return fmt.Errorf("key %q stores %d index declarations, model %d", kvp.Key, len(se.SecondaryIndexes), len(r.Indexes))
		}
		for i, si := range se.SecondaryIndexes {
			if si.IndexName != r.Indexes[i].Name || si.SecondaryKey != r.Indexes[i].Secondary {
				return fmt.Errorf("key %q index declaration %d differs", kvp.Key, i)
			}
		}
	}
	want := m.SortedKeys()
	if len(userKeys) != len(want) {
		return fmt.Errorf("stored user keys %q, model %q", userKeys, want)
	}
	for i := range want {
		if userKeys[i] != want[i] {
			return fmt.Errorf("stored user keys in storage order %q, model (documented key order) %q", userKeys, want)
		}
	}
	return nil
}

// allKeys lists every stored key (internal ones included) in storage order.
func allKeys(dump []rawKV) []string {
	out := make([]string, len(dump))
	for i, d := range dump {
		out[i] = d.Key
	}
	return out
}

// checkGet compares a comparison get served by the database with the model. Reads are not
// filtered by the server, so the nearest stored key may be a reserved "__oxia/" record: then the
// model only requires that no user key lies strictly between it and the probe.
func checkGet(m *model.Shard, e *dbEnv, probe string, cmp proto.KeyComparisonType) error {
	db := e.db
	res, err := db.Get(&proto.GetRequest{Key: probe, IncludeValue: true, ComparisonType: cmp})
	want, found := m.Get(probe, cmp)
	if err != nil || (res.Status == proto.Status_OK && res.Key != nil && model.IsInternal(*res.Key)) {
		// Reads are not filtered by the server: when the nearest stored key in the requested direction is
		// a reserved "__oxia/" record, the call returns that record or fails to decode it. That is outside
		// the listed properties (DESIGN 4.0); it is accepted only if a reserved record really is the nearest.
		d, derr := e.dump()
		if derr != nil {
			return derr
		}
		near, ok := model.GetIn(sortedCopy(allKeys(d)), probe, cmp)
		if ok && model.IsInternal(near) && cmp != proto.KeyComparisonType_EQUAL {
			reservedNeighbour.Add(1)
			return nil
		}
		if err != nil {
			return fmt.Errorf("get(%q,%v) failed: %v", probe, cmp, err)
		}
		return fmt.Errorf("get(%q,%v) returned reserved key %q although the nearest stored key is %q", probe, cmp, *res.Key, near)
	}
	if res.Status == proto.Status_KEY_NOT_FOUND {
		if found {
			return fmt.Errorf("get(%q,%v) = not found, model has %q", probe, cmp, want)
		}
		return nil
	}
	if res.Status != proto.Status_OK {
		return fmt.Errorf("get(%q,%v) status %v", probe, cmp, res.Status)
	}
	got := probe
	if res.Key != nil {
		got = *res.Key
	}
	if !found || got != want {
		return fmt.Errorf("get(%q,%v) = %q, model %q (found=%v); keys=%q", probe, cmp, got, want, found, m.SortedKeys())
	}
	return m.CheckRecord(got, res.Value, true, res.Version)
}

var reservedNeighbour atomic.Int64

func sortedCopy(keys []string) []string {
	out := append([]string{}, keys...)
	sort.Slice(out, func(i, j int) bool { return model.CompareKeys(out[i], out[j]) < 0 })
	return out
}

func checkList(m *model.Shard, db kv.DB, start, end string) error {
	it, err := db.List(&proto.ListRequest{StartInclusive: start, EndExclusive: end})
	if err != nil {
		return fmt.Errorf("list[%q,%q): %v", start, end, err)
	}
	var got []string
	for ; it.Valid(); it.Next() {
		got = append(got, it.Key())
	}
	_ = it.Close()
	want := m.KeysInRange(start, end)
	if strings.Join(got, "\x00") != strings.Join(want, "\x00") {
		return fmt.Errorf("list[%q,%q) = %q, model %q", start, end, got, want)
	}
	rs, err := db.RangeScan(&proto.RangeScanRequest{StartInclusive: start, EndExclusive: end})
	if err != nil {
		return fmt.Errorf("rangescan[%q,%q): %v", start, end, err)
	}
	defer rs.Close()
	i := 0
	for ; rs.Valid(); rs.Next() {
		r, err := rs.Value()
		if err != nil {
			return fmt.Errorf("rangescan value: %v", err)
		}
		if i >= len(want) || r.Key == nil || *r.Key != want[i] {
			return fmt.Errorf("rangescan[%q,%q) record %d = %v, model keys %q", start, end, i, r.Key, want)
		}
		if err := m.CheckRecord(*r.Key, r.Value, true, r.Version); err != nil {
			return err
		}
		i++
	}
	if i != len(want) {
		return fmt.Errorf("rangescan[%q,%q) returned %d records, model %d", start, end, i, len(want))
	}
	return nil
}

var allCmp = []proto.KeyComparisonType{proto.KeyComparisonType_EQUAL, proto.KeyComparisonType_FLOOR, proto.KeyComparisonType_CEILING,
	proto.KeyComparisonType_LOWER, proto.KeyComparisonType_HIGHER}

var _ = bytes.Equal
var _ = sort.Strings
