//go:build verif

package leaderx

// C05, node side: "the term known to a node never decreases, including across restarts" - with restart meaning a
// crash (process kill), not a graceful stop. The database runs without a Pebble WAL, so whatever has not been
// flushed is lost by a crash; the term is not in the Oxia log either, so it must be flushed before NewTerm is
// answered. Generated: a controller (leader or follower role) goes through a history of NewTerm / BecomeLeader /
// writes; right after a drawn NewTerm answer, while nothing else runs, the node's directories are copied byte for
// byte (what a kill at that instant leaves behind) and a fresh controller is opened over the copy: it must know
// the term it had answered, and refuse a NewTerm of any lower term.

import (
	"context"
	"fmt"
	"os"
	"path/filepath"
	"strings"
	"testing"
	"time"

	"pgregory.net/rapid"

	"github.com/oxia-db/oxia/proto"
	"github.com/oxia-db/oxia/server"
	"github.com/oxia-db/oxia/server/kv"
	"github.com/oxia-db/oxia/server/wal"

	"verifharness/evid"
	"verifharness/gen"
	"verifharness/model"
)

func runC05Term(t *rapid.T) {
	root := mkTemp(t, "c05t-")
	defer os.RemoveAll(root)
	dirA := filepath.Join(root, "a")
	followerRole := rapid.Bool().Draw(t, "followerRole")
	var hist []string
	logf := func(f string, a ...any) { hist = append(hist, fmt.Sprintf(f, a...)) }

	var lc server.LeaderController
	var fc server.FollowerController
	var kvf kv.Factory
	open := func(dir string) error {
		wf := wal.NewWalFactory(&wal.FactoryOptions{BaseWalDir: filepath.Join(dir, "wal"), Retention: time.Hour, SegmentSize: 1 << 20, SyncData: true})
		f, err := kv.NewPebbleKVFactory(&kv.FactoryOptions{DataDir: filepath.Join(dir, "db"), CacheSizeMB: 1})
		if err != nil {
			return err
		}
		kvf = f
		if followerRole {
			fc, err = server.NewFollowerController(server.Config{NotificationsRetentionTime: time.Hour}, "ns", shardId, wf, f)
		} else {
			lc, err = server.NewLeaderController(server.Config{NotificationsRetentionTime: time.Hour}, "ns", shardId, nullRpc{}, wf, f)
		}
		return err
	}
	closeAll := func() {
		if lc != nil {
			_ = lc.Close()
			lc = nil
		}
		if fc != nil {
			_ = fc.Close()
			fc = nil
		}
	}
	newTerm := func(term int64) error {
		req := &proto.NewTermRequest{Shard: shardId, Term: term, Options: &proto.NewTermOptions{EnableNotifications: true}}
		var err error
		if followerRole {
			_, err = fc.NewTerm(req)
		} else {
			_, err = lc.NewTerm(req)
		}
		return err
	}
	termOf := func() int64 {
		if followerRole {
			return fc.Term()
		}
		return lc.Term()
	}
	if err := open(dirA); err != nil {
		t.Fatalf("open: %v", err)
	}
	defer closeAll()

	m := model.New()
	pool := gen.Pool(t, 3, 5)
	term := int64(-1)
	nSteps := rapid.IntRange(1, 6).Draw(t, "nSteps")
	crashAfter := rapid.IntRange(1, nSteps).Draw(t, "crashAfterNewTerm")
	wrote := false
	for i := 1; i <= nSteps; i++ {
		term += int64(rapid.IntRange(1, 3).Draw(t, "termInc"))
		if err := newTerm(term); err != nil {
			t.Fatalf("C05: NewTerm(%d) refused on a node whose term is lower: %v; history=%v", term, err, hist)
		}
		logf("NewTerm(%d)", term)
		if i == crashAfter {
			break
		}
		// between elections: as a leader, serve some writes (they fill the memtable; nothing forces a flush)
		if !followerRole && rapid.Bool().Draw(t, "lead") {
			n := &node{lc: lc, term: term}
			if _, err := lc.BecomeLeader(bgCtx(), &proto.BecomeLeaderRequest{Shard: shardId, Term: term, ReplicationFactor: 1}); err != nil {
				t.Fatalf("BecomeLeader(%d): %v; history=%v", term, err, hist)
			}
			for j, k := 0, rapid.IntRange(1, 4).Draw(t, "nWrites"); j < k; j++ {
				req := gen.WriteRequest(t, m, gen.ReqOpts{Pool: pool, Tag: newTag, MaxPuts: 2})
				if _, err := n.write(req); err != nil {
					t.Fatalf("write: %v; history=%v", err, hist)
				}
				wrote = true
			}
			logf("led term %d and wrote", term)
		}
	}
	// the node has answered NewTerm(term); nothing else is running: this is what a kill leaves on disk
	dirB := filepath.Join(root, "b")
	// Pebble may still be compacting in the background: the image is taken while the directory listing (names and
	// sizes) is the same before and after the copy, i.e. at an instant at which no file changed
	stable := false
	for attempt := 0; attempt < 50 && !stable; attempt++ {
		_ = os.RemoveAll(dirB)
		before := listing(dirA)
		if err := copyTree(dirA, dirB); err == nil && listing(dirA) == before {
			stable = true
		} else {
			time.Sleep(20 * time.Millisecond)
		}
	}
	if !stable {
		t.Skip("inconclusive: the directory did not settle")
	}
	closeAll()
	_ = kvf.Close()
	if err := open(dirB); err != nil {
		t.Fatalf("C05: the node does not start over the crash image: %v; history=%v", err, hist)
	}
	if got := termOf(); got != term {
		t.Fatalf("C05: the node answered NewTerm(%d), was killed and restarted: it now knows term %d (the term was not durable when NewTerm was answered); history=%v", term, got, hist)
	}
	if term > 0 {
		lower := term - int64(rapid.IntRange(1, int(term)).Draw(t, "lower"))
		if err := newTerm(lower); err == nil {
			t.Fatalf("C05: after the crash the node accepted NewTerm(%d), below the term %d it had answered before; history=%v", lower, term, hist)
		}
	}
	labels := []string{"role_leader"}
	if followerRole {
		labels = []string{"role_follower"}
	}
	if wrote {
		labels = append(labels, "unflushed_writes_before_the_crash")
	}
	evid.Case("C05", crashAfter > 1 || wrote, fmt.Sprintf("term-crash follower=%v %v", followerRole, hist), labels...)
}

func TestC05_TermDurable(t *testing.T) {
	rapid.Check(t, runC05Term)
}

func bgCtx() context.Context {
	ctx, cancel := context.WithTimeout(context.Background(), 20*time.Second)
	_ = cancel
	return ctx
}

func listing(dir string) string {
	var sb strings.Builder
	_ = filepath.Walk(dir, func(p string, info os.FileInfo, err error) error {
		if err != nil {
			sb.WriteString("ERR " + p + "\n")
			return nil
		}
		if !info.IsDir() {
			fmt.Fprintf(&sb, "%s %d %d\n", p, info.Size(), info.ModTime().UnixNano())
		}
		return nil
	})
	return sb.String()
}
