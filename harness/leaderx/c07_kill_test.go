//go:build verif

package leaderx

// C07 with a physical crash image. The database runs without a Pebble WAL: what a process kill leaves behind is the
// last flushed database state plus the Oxia log, and recovery replays the log from the database's commit offset.
// "After a crash at any instant and restart, a node's database equals the result of applying log entries 0..c in
// order ... replay resumes at exactly c+1, and c is never ahead of what the node's log contains" - and, for replay
// to be possible at all, the log must still contain c+1. Generated: an RF=1 leader whose log uses an injected
// clock; writes over several small segments; the clock is moved past the retention time and trimming rounds run
// at drawn points; at a drawn instant the node's directories are copied byte for byte (at an instant at which no
// file changes) and a fresh node is started over the copy. It must become leader again and end up with the state
// of the whole history (every acknowledged write), as computed by folding the recorded log into a fresh database.

import (
	"fmt"
	"os"
	"path/filepath"
	"sync"
	"testing"
	"time"

	"pgregory.net/rapid"

	"github.com/oxia-db/oxia/proto"
	"github.com/oxia-db/oxia/server/wal"

	"verifharness/evid"
	"verifharness/gen"
	"verifharness/model"
)

type stepClock struct {
	mu  sync.Mutex
	now time.Time
}

func (c *stepClock) Now() time.Time {
	c.mu.Lock()
	defer c.mu.Unlock()
	return c.now
}

func (c *stepClock) advance(d time.Duration) {
	c.mu.Lock()
	c.now = c.now.Add(d)
	c.mu.Unlock()
}

func runC07Kill(t *rapid.T) {
	root := mkTemp(t, "c07k-")
	defer os.RemoveAll(root)
	dirA := filepath.Join(root, "a")
	clock := &stepClock{now: time.Now()} // entries are stamped by the leader with the system clock
	n := &node{dir: dirA, segSize: rapid.SampledFrom([]int32{1024, 4096}).Draw(t, "segSize"), rpc: nullRpc{}, walClock: clock, walRetention: time.Hour}
	if err := n.open(); err != nil {
		t.Fatalf("node: %v", err)
	}
	defer func() { n.close() }()
	if err := n.lead(true); err != nil {
		t.Fatalf("lead: %v", err)
	}
	m := model.New()
	pool := gen.Pool(t, 3, 6)
	var hist []string
	logf := func(f string, a ...any) { hist = append(hist, fmt.Sprintf(f, a...)) }
	var all []*proto.LogEntry // every entry ever appended (the log itself may be trimmed)
	record := func() {
		es, err := n.walF.last().ReadAllEntries()
		if err != nil {
			t.Fatalf("harness: read wal: %v", err)
		}
		for _, e := range es {
			if int64(len(all)) == e.Offset {
				all = append(all, e)
			}
		}
	}
	trims, trimmedSomething, newTerms := 0, false, 0
	nSteps := rapid.IntRange(3, 14).Draw(t, "nSteps")
	for i := 0; i < nSteps; i++ {
		switch rapid.SampledFrom([]string{"write", "write", "write", "burst", "time", "trim", "newTerm"}).Draw(t, "step") {
		case "write", "burst":
			k := 1
			if rapid.Bool().Draw(t, "many") {
				k = rapid.IntRange(2, 12).Draw(t, "nWrites")
			}
			for j := 0; j < k; j++ {
				req := gen.WriteRequest(t, m, gen.ReqOpts{Pool: pool, Tag: newTag, MaxPuts: 3})
				resp, err := n.write(req)
				if err != nil {
					t.Fatalf("C07: write failed on a healthy RF=1 leader: %v; history=%v", err, hist)
				}
				ts := uint64(0)
				for _, p := range resp.Puts {
					if p.Status == proto.Status_OK && p.Version != nil {
						ts = p.Version.ModifiedTimestamp
					}
				}
				if _, err := m.Apply(req, resp, ts); err != nil {
					t.Fatalf("C07: %v; history=%v", err, hist)
				}
			}
			record()
			logf("%d writes (head %d)", k, len(all)-1)
		case "time":
			d := time.Duration(rapid.IntRange(10, 90).Draw(t, "minutes")) * time.Minute
			clock.advance(d)
			logf("clock +%v", d)
		case "trim":
			before := n.walF.last().FirstOffset()
			if err := wal.VerifTrimOnce(n.walF.last().Wal); err != nil {
				t.Fatalf("C07: trimming round failed: %v; history=%v", err, hist)
			}
			after := n.walF.last().FirstOffset()
			trims++
			if after != before {
				trimmedSomething = true
			}
			logf("trim round: first offset %d -> %d", before, after)
		case "newTerm":
			// a new election on the same node (fences, flushes the term, becomes leader again)
			if newTerms >= 2 {
				continue
			}
			newTerms++
			if err := n.lead(true); err != nil {
				t.Fatalf("C07: cannot lead a new term: %v; history=%v", err, hist)
			}
			logf("new term %d", n.term)
		}
	}
	record()
	// the kill
	dirB := filepath.Join(root, "b")
	stable := false
	for attempt := 0; attempt < 50 && !stable; attempt++ {
		_ = os.RemoveAll(dirB)
		before := listing(dirA)
		if err := copyTree(dirA, dirB); err == nil && listing(dirA) == before {
			stable = true
		} else {
			time.Sleep(20 * time.Millisecond)
		}
	}
	if !stable {
		t.Skip("inconclusive: the directory did not settle")
	}
	logf("kill; restart over the image")
	nb := &node{dir: dirB, segSize: n.segSize, rpc: nullRpc{}, walClock: clock, walRetention: time.Hour, term: n.term}
	if err := nb.open(); err != nil {
		t.Fatalf("C07: the node does not start over the crash image: %v; history=%v", err, hist)
	}
	defer nb.close()
	imgDump, _ := dumpKV(nb.kvF.last())
	c := readCommitOffsetOf(imgDump)
	first := nb.walF.last().FirstOffset()
	last := nb.walF.last().LastOffset()
	desc := fmt.Sprintf("database commit offset after the kill=%d, log holds offsets %d..%d, %d entries were acknowledged", c, first, last, len(all))
	if err := nb.lead(true); err != nil {
		t.Fatalf("C07: after a kill the node cannot become leader again: %v; %s; history=%v", err, desc, hist)
	}
	bDump, err := dumpKV(nb.kvF.last())
	if err != nil {
		t.Fatalf("harness: %v", err)
	}
	wantAll, err := foldLog(filepath.Join(root, "fold-all"), all, int64(len(all))-1)
	if err != nil {
		t.Fatalf("harness: fold: %v", err)
	}
	if d := diffDumps(decodedDump(bDump), wantAll); d != "" {
		t.Fatalf("C07: after a kill and restart the database differs from applying every acknowledged entry once, in order: %s; %s; history=%v", d, desc, hist)
	}
	var labels []string
	if trimmedSomething {
		labels = append(labels, "log_trimmed_before_the_kill")
	}
	if c < int64(len(all))-1 {
		labels = append(labels, "unflushed_entries_replayed")
	}
	if newTerms > 0 {
		labels = append(labels, "flush_by_new_term")
	}
	evid.Case("C07", c < int64(len(all))-1, "kill "+desc+fmt.Sprintf(" %v", hist), labels...)
}

func TestC07_KillImage(t *testing.T) {
	rapid.Check(t, runC07Kill)
}
