//go:build verif

package leaderx

import (
	"fmt"
	"os"
	"path/filepath"
	"sort"
	"strings"
	"sync"
	"sync/atomic"
	"testing"
	"time"

	"pgregory.net/rapid"

	time2 "github.com/oxia-db/oxia/common/time"
	"github.com/oxia-db/oxia/proto"
	"github.com/oxia-db/oxia/server"
	"github.com/oxia-db/oxia/server/kv"

	"verifharness/evid"
	"verifharness/gen"
	"verifharness/model"
)

func copyTree(src, dst string) error {
	return filepath.Walk(src, func(p string, info os.FileInfo, err error) error {
		if err != nil {
			return err
		}
		rel, _ := filepath.Rel(src, p)
		target := filepath.Join(dst, rel)
		if info.IsDir() {
			return os.MkdirAll(target, 0o755)
		}
		b, err := os.ReadFile(p)
		if err != nil {
			return err
		}
		return os.WriteFile(target, b, 0o644)
	})
}

// decodedDump: dump with node-local records removed and notification batches decoded (their
// serialization is not deterministic).
func decodedDump(d []rawKV) []string {
	var out []string
	for _, e := range d {
		if e.Key == "__oxia/term" || e.Key == "__oxia/term-options" {
			continue
		}
		if strings.HasPrefix(e.Key, "__oxia/notifications/") {
			nb := &proto.NotificationBatch{}
			if err := nb.UnmarshalVT(e.Value); err == nil {
				var ks []string
				for k, n := range nb.Notifications {
					ks = append(ks, fmt.Sprintf("%q:%v", k, n))
				}
				sort.Strings(ks)
				out = append(out, fmt.Sprintf("%s => off=%d ts=%d %v", e.Key, nb.Offset, nb.Timestamp, ks))
				continue
			}
		}
		out = append(out, e.Key+" => "+string(e.Value))
	}
	return out
}

func diffDumps(a, b []string) string {
	for i := 0; i < len(a) && i < len(b); i++ {
		if a[i] != b[i] {
			return fmt.Sprintf("record %d: %q vs %q", i, a[i], b[i])
		}
	}
	if len(a) != len(b) {
		return fmt.Sprintf("%d vs %d records", len(a), len(b))
	}
	return ""
}

// foldLog applies entries (in order) to a fresh database and returns its decoded dump.
func foldLog(dir string, entries []*proto.LogEntry, upTo int64) ([]string, error) {
	f, err := kv.NewPebbleKVFactory(&kv.FactoryOptions{DataDir: dir, CacheSizeMB: 1})
	if err != nil {
		return nil, err
	}
	kf := &hookKVFactory{Factory: f}
	db, err := kv.NewDB("ns", shardId, kf, time.Hour, time2.SystemClock)
	if err != nil {
		return nil, err
	}
	defer db.Close()
	for _, e := range entries {
		if e.Offset > upTo {
			break
		}
		lev := &proto.LogEntryValue{}
		if err := lev.UnmarshalVT(e.Value); err != nil {
			return nil, err
		}
		for _, w := range lev.GetRequests().Writes {
			if _, err := db.ProcessWrite(w, e.Offset, e.Timestamp, server.WrapperUpdateOperationCallback); err != nil {
				return nil, err
			}
		}
	}
	d, err := dumpKV(kf.last())
	if err != nil {
		return nil, err
	}
	return decodedDump(d), nil
}

func readCommitOffsetOf(d []rawKV) int64 {
	for _, e := range d {
		if e.Key == "__oxia/commit-offset" {
			se := &proto.StorageEntry{}
			if err := se.UnmarshalVT(e.Value); err == nil {
				var x int64
				if _, err := fmt.Sscanf(string(se.Value), "%d", &x); err == nil {
					return x
				}
			}
		}
	}
	return -1
}

// runC07: a crash image (database after exactly k batch commits + the WAL as of a later instant) of an RF=1 leader
// with 1-4 writers in flight; the image must equal the in-order application of entries 0..c, and the restarted
// node must end up equal to the application of the whole log.
func runC07(t *rapid.T) { runReplay(t, "C07", false) }

// runC13Replay: the same crash-and-replay scenario with requests a client can put on the wire but a well-behaved
// library would not build (gen.HostileRequest, including strings that are not valid UTF-8): whatever the leader
// accepted into its log must be replayable by BecomeLeader after a crash, and by a fold over a fresh database.
func runC13Replay(t *rapid.T) { runReplay(t, "C13", true) }

func runReplay(t *rapid.T, prop string, hostile bool) {
	root := mkTemp(t, "c07-")
	defer os.RemoveAll(root)
	dirA := filepath.Join(root, "a")
	segSize := rapid.SampledFrom([]int32{4096, 65536}).Draw(t, "segSize")
	if hostile {
		// an entry must fit into one WAL segment (a request of 50 puts with 1.8 KB keys does not fit into the small
		// segments used to force rollovers; production segments are far larger than the maximum message size)
		segSize = 1 << 20
	}
	n, err := newNode(dirA, segSize)
	if err != nil {
		t.Fatalf("node: %v", err)
	}
	defer func() { n.close() }()
	if err := n.lead(true); err != nil {
		t.Fatalf("lead: %v", err)
	}
	m := model.New()
	pool := gen.Pool(t, 3, 6)
	nReq := rapid.IntRange(2, 14).Draw(t, "nRequests")
	writers := rapid.IntRange(1, 4).Draw(t, "writers")
	var reqs []*proto.WriteRequest
	badUTF8, unusual, refusedSeen := false, false, false
	for i := 0; i < nReq; i++ {
		var r *proto.WriteRequest
		if hostile && rapid.IntRange(0, 3).Draw(t, "hostile") > 0 {
			var u bool
			r, u = gen.HostileRequestRaw(t, pool, nil, newTag)
			if gen.RefusedBeforeLogging(r) {
				// must be answered with an error and must not reach the log
				before := n.walF.last().LastOffset()
				if _, err := n.write(r); err == nil {
					t.Fatalf("C13: the leader accepted into its log a request that no replica can apply: %s", gen.FormatRequest(r))
				}
				if after := n.walF.last().LastOffset(); after != before {
					t.Fatalf("C13: the leader answered %s with an error but appended it to its log (head %d -> %d)", gen.FormatRequest(r), before, after)
				}
				refusedSeen = true
				continue
			}
			unusual = unusual || u
			badUTF8 = badUTF8 || gen.HasBadUTF8(r)
			reqs = append(reqs, r)
			continue
		}
		r = gen.WriteRequest(t, m, gen.ReqOpts{Pool: pool, IndexNames: []string{"idx"}, SeqPrefix: []string{"sq"}, Tag: newTag})
		for _, p := range r.Puts {
			// the requests are drawn up front (the model is not advanced): keep sequence puts well-formed whatever
			// the state will be, i.e. always two deltas
			if len(p.SequenceKeyDelta) > 0 {
				p.SequenceKeyDelta = []uint64{p.SequenceKeyDelta[0], uint64(len(p.Value))}
			}
		}
		reqs = append(reqs, r)
	}
	if len(reqs) == 0 {
		reqs = append(reqs, gen.WriteRequest(t, m, gen.ReqOpts{Pool: pool, Tag: newTag}))
	}
	// the image is taken right after the k-th commit from now on
	k := rapid.IntRange(1, nReq).Draw(t, "crashAfterCommit")
	var commits atomic.Int64
	imgDB := filepath.Join(root, "img-db")
	var imgErr error
	var once sync.Once
	n.kvF.setCommitHooks(nil, func() {
		if commits.Add(1) == int64(k) {
			once.Do(func() {
				snap, err := n.kvF.last().Snapshot()
				if err != nil {
					imgErr = err
					return
				}
				imgErr = copyTree(snap.BasePath(), imgDB)
				_ = snap.Close()
			})
		}
	})
	var wg sync.WaitGroup
	var werr atomic.Value
	for w := 0; w < writers; w++ {
		wg.Add(1)
		go func(w int) {
			defer wg.Done()
			for i := w; i < len(reqs); i += writers {
				if _, err := n.write(reqs[i]); err != nil {
					werr.Store(err)
					return
				}
			}
		}(w)
	}
	done := make(chan struct{})
	go func() { wg.Wait(); close(done) }()
	select {
	case <-done:
	case <-time.After(30 * time.Second):
		t.Skip("inconclusive: writers did not finish")
	}
	n.kvF.setCommitHooks(nil, nil)
	if e := werr.Load(); e != nil {
		t.Fatalf("%s: write failed on a healthy RF=1 leader: %v; requests=%s", prop, e, fmtReqs(reqs))
	}
	if imgErr != nil {
		t.Fatalf("harness: image: %v", imgErr)
	}
	if commits.Load() < int64(k) {
		t.Skip("fewer commits than the crash point")
	}
	// WAL image: byte copy taken after the database image
	imgWal := filepath.Join(root, "img-wal")
	if err := copyTree(filepath.Join(dirA, "wal"), imgWal); err != nil {
		t.Fatalf("harness: wal copy: %v", err)
	}
	entries, err := n.walF.last().ReadAllEntries()
	if err != nil {
		t.Fatalf("harness: read wal: %v", err)
	}
	desc := fmt.Sprintf("requests=%d writers=%d crashAfterCommit=%d entries=%d", nReq, writers, k, len(entries))
	// ---- the image itself
	probe := filepath.Join(root, "probe")
	if err := copyTree(imgDB, filepath.Join(probe, "db", "ns", "shard-1")); err != nil {
		t.Fatalf("harness: %v", err)
	}
	pf, err := kv.NewPebbleKVFactory(&kv.FactoryOptions{DataDir: filepath.Join(probe, "db"), CacheSizeMB: 1})
	if err != nil {
		t.Fatalf("harness: %v", err)
	}
	pkv, err := pf.NewKV("ns", shardId)
	if err != nil {
		t.Fatalf("%s: the crash image does not open: %v; %s", prop, err, desc)
	}
	imgDump, err := dumpKV(pkv)
	_ = pkv.Close()
	if err != nil {
		t.Fatalf("harness: dump image: %v", err)
	}
	c := readCommitOffsetOf(imgDump)
	last := int64(-1)
	if len(entries) > 0 {
		last = entries[len(entries)-1].Offset
	}
	if c > last {
		t.Fatalf("%s: the image's commit offset %d is ahead of the log (last offset %d); %s", prop, c, last, desc)
	}
	want, err := foldLog(filepath.Join(root, "fold-c"), entries, c)
	if err != nil {
		if hostile {
			t.Fatalf("C13: a fresh replica cannot apply the log the leader accepted: %v; %s requests=%s", err, desc, fmtReqs(reqs))
		}
		t.Fatalf("harness: fold: %v", err)
	}
	if d := diffDumps(decodedDump(imgDump), want); d != "" {
		t.Fatalf("%s: the database after %d commits (commit offset %d) differs from applying entries 0..%d in order to an empty database: %s; %s", prop, k, c, c, d, desc)
	}
	// ---- restart over the image: replay must resume at c+1 and end at the state of the whole log
	dirB := filepath.Join(root, "b")
	if err := copyTree(imgDB, filepath.Join(dirB, "db", "ns", "shard-1")); err != nil {
		t.Fatalf("harness: %v", err)
	}
	if err := copyTree(imgWal, filepath.Join(dirB, "wal")); err != nil {
		t.Fatalf("harness: %v", err)
	}
	nb, err := newNode(dirB, n.segSize)
	if err != nil {
		t.Fatalf("%s: node does not start over the crash image: %v; %s", prop, err, desc)
	}
	defer nb.close()
	nb.term = n.term
	if err := nb.lead(true); err != nil {
		t.Fatalf("%s: node cannot become leader over the crash image (replay of entries %d..%d): %v; %s requests=%s", prop, c+1, last, err, desc, fmtReqs(reqs))
	}
	bDump, err := dumpKV(nb.kvF.last())
	if err != nil {
		t.Fatalf("harness: %v", err)
	}
	wantAll, err := foldLog(filepath.Join(root, "fold-all"), entries, last)
	if err != nil {
		t.Fatalf("harness: fold: %v", err)
	}
	if d := diffDumps(decodedDump(bDump), wantAll); d != "" {
		t.Fatalf("%s: after restart over the image (commit offset %d) and replay, the database differs from applying the whole log once, in order: %s; %s", prop, c, d, desc)
	}
	if got := readCommitOffsetOf(bDump); got != last {
		t.Fatalf("%s: after replay the commit offset is %d, the log ends at %d; %s", prop, got, last, desc)
	}
	labels := []string{}
	if c < last && c >= 0 {
		labels = append(labels, "image_inside_run")
	}
	if writers > 1 {
		labels = append(labels, "concurrent_writers")
	}
	if hostile {
		if badUTF8 {
			labels = append(labels, "non_utf8_string")
		}
		if unusual {
			labels = append(labels, "unusual_request")
		}
		if refusedSeen {
			labels = append(labels, "refused_before_logging")
		}
		// non-trivial for C13: hostile content was actually replayed by BecomeLeader
		evid.Case("C13", c < last && (unusual || badUTF8), "replay "+desc+" "+gen.FormatRequest(reqs[len(reqs)-1]), labels...)
		return
	}
	evid.Case("C07", (c < last && c >= 0) || writers > 1, desc+" "+gen.FormatRequest(reqs[0]), labels...)
}

func fmtReqs(reqs []*proto.WriteRequest) string {
	var out []string
	for i, r := range reqs {
		out = append(out, fmt.Sprintf("#%d %s", i, gen.FormatRequest(r)))
	}
	return strings.Join(out, " | ")
}

func TestC13_Replay(t *testing.T) {
	rapid.Check(t, runC13Replay)
}

func TestC07_CrashReplay(t *testing.T) {
	rapid.Check(t, runC07)
}
