//go:build verif

package leaderx

import (
	"fmt"
	"os"
	"sort"
	"strings"
	"sync"
	"testing"
	"time"

	"pgregory.net/rapid"

	"github.com/oxia-db/oxia/common/concurrent"
	"github.com/oxia-db/oxia/proto"
	"github.com/oxia-db/oxia/server"

	"verifharness/evid"
)

// (a) whole pipeline on an RF=1 leader: W concurrent writers, each a chain of conditional puts on its own
// key (so every response is attributable to its request), with drawn delays between offset allocation and
// the WAL append.
func runC08Pipeline(t *rapid.T) {
	dir := mkTemp(t, "c08-")
	defer os.RemoveAll(dir)
	n, err := newNode(dir, rapid.SampledFrom([]int32{4096, 65536, 1 << 20}).Draw(t, "segSize"))
	if err != nil {
		t.Fatalf("node: %v", err)
	}
	defer n.close()
	if err := n.lead(true); err != nil {
		t.Fatalf("lead: %v", err)
	}
	W := rapid.IntRange(1, 12).Draw(t, "writers")
	K := rapid.IntRange(1, 8).Draw(t, "writesPerWriter")
	delays := rapid.SliceOfN(rapid.IntRange(0, 300), W*K, W*K).Draw(t, "delaysMicros")
	var dmu sync.Mutex
	di := 0
	n.walF.mu.Lock()
	n.walF.onAppendAndSync = func(*proto.LogEntry) {
		dmu.Lock()
		d := delays[di%len(delays)]
		di++
		dmu.Unlock()
		if d > 0 {
			time.Sleep(time.Duration(d) * time.Microsecond)
		}
	}
	n.walF.mu.Unlock()

	type result struct {
		writer, idx int
		tag         string
		version     int64
		err         error
		mismatch    string
	}
	results := make(chan result, W*K)
	var wg sync.WaitGroup
	start := make(chan struct{})
	for w := 0; w < W; w++ {
		wg.Add(1)
		go func(w int) {
			defer wg.Done()
			<-start
			key := fmt.Sprintf("w%d", w)
			expected := int64(-1)
			for j := 0; j < K; j++ {
				tag := fmt.Sprintf("w%d#%d", w, j)
				resp, err := n.write(&proto.WriteRequest{Puts: []*proto.PutRequest{{Key: key, Value: []byte(tag), ExpectedVersionId: &expected}}})
				r := result{writer: w, idx: j, tag: tag, err: err}
				if err == nil {
					p := resp.Puts[0]
					if p.Status != proto.Status_OK || p.Version == nil {
						r.mismatch = fmt.Sprintf("status %v", p.Status)
					} else {
						if p.Version.ModificationsCount != int64(j) {
							r.mismatch = fmt.Sprintf("modification count %d, this caller's request must produce %d", p.Version.ModificationsCount, j)
						}
						r.version = p.Version.VersionId
						expected = p.Version.VersionId
					}
				}
				results <- r
				if err != nil || r.mismatch != "" {
					return
				}
			}
		}(w)
	}
	close(start)
	doneCh := make(chan struct{})
	go func() { wg.Wait(); close(doneCh) }()
	select {
	case <-doneCh:
	case <-time.After(60 * time.Second):
		t.Skip("inconclusive: writers did not finish within the bound")
	}
	close(results)
	desc := fmt.Sprintf("writers=%d writes=%d seg=%d delays=%v", W, K, n.segSize, delays)
	versionOf := map[string]int64{}
	for r := range results {
		if r.err != nil {
			t.Fatalf("C08: write %s failed although the (RF=1) quorum is healthy: %v; case: %s", r.tag, r.err, desc)
		}
		if r.mismatch != "" {
			t.Fatalf("C08: write %s got a response that is not its own: %s; case: %s", r.tag, r.mismatch, desc)
		}
		versionOf[r.tag] = r.version
	}
	// the log: distinct contiguous offsets 0..N-1, applied in offset order
	w := n.walF.last()
	rd, err := w.NewReader(-1)
	if err != nil {
		t.Fatalf("reader: %v", err)
	}
	next := int64(0)
	lastVersion := int64(-1)
	for rd.HasNext() {
		e, err := rd.ReadNext()
		if err != nil {
			t.Fatalf("C08: reading the leader log at %d: %v; case: %s", next, err, desc)
		}
		if e.Offset != next {
			t.Fatalf("C08: log offsets are not contiguous: got %d, expected %d; case: %s", e.Offset, next, desc)
		}
		lev := &proto.LogEntryValue{}
		if err := lev.UnmarshalVT(e.Value); err != nil {
			t.Fatalf("unmarshal: %v", err)
		}
		for _, wr := range lev.GetRequests().Writes {
			for _, p := range wr.Puts {
				v, ok := versionOf[string(p.Value)]
				if !ok {
					t.Fatalf("C08: log entry %d holds request %q which no writer issued; case: %s", e.Offset, p.Value, desc)
				}
				if v <= lastVersion {
					t.Fatalf("C08: entry %d (%q) was applied with version id %d, not after the previous entry (version %d): effects not applied in offset order; case: %s",
						e.Offset, p.Value, v, lastVersion, desc)
				}
				lastVersion = v
				delete(versionOf, string(p.Value))
			}
		}
		next++
	}
	_ = rd.Close()
	if next != int64(W*K) || len(versionOf) != 0 {
		t.Fatalf("C08: %d acknowledged writes but the log holds %d entries (missing %d); case: %s", W*K, next, len(versionOf), desc)
	}
	for wi := 0; wi < W; wi++ {
		r, err := n.get(&proto.GetRequest{Key: fmt.Sprintf("w%d", wi), IncludeValue: true})
		if err != nil || r.Status != proto.Status_OK || string(r.Value) != fmt.Sprintf("w%d#%d", wi, K-1) || r.Version.ModificationsCount != int64(K-1) {
			t.Fatalf("C08: final record of writer %d is %v (err %v); case: %s", wi, r, err, desc)
		}
	}
	labels := []string{"pipeline"}
	if W >= 2 {
		labels = append(labels, "concurrent_writers")
	}
	evid.Case("C08", W >= 2 && K >= 2, "pipeline "+desc, labels...)
}

func TestC08_Pipeline(t *testing.T) {
	rapid.Check(t, runC08Pipeline)
}

// (b) the quorum ack tracker in isolation against the reference commit rule.
type waiter struct {
	offset int64
	fired  int
	err    error
}

func runC08Tracker(t *rapid.T) {
	rf := uint32(rapid.SampledFrom([]int{1, 2, 3, 4, 5}).Draw(t, "rf"))
	head0 := int64(rapid.IntRange(-1, 6).Draw(t, "head0"))
	commit0 := int64(rapid.IntRange(-1, int(head0)).Draw(t, "commit0"))
	if rf/2 == 0 && commit0 != head0 && evid.Known(kfTrackerRf1Initial) {
		evid.Excluded("C08", kfTrackerRf1Initial)
		commit0 = head0
	}
	q := server.NewQuorumAckTracker(rf, head0, commit0)
	defer q.Close()
	required := int(rf / 2)
	var hist []string
	logf := func(f string, a ...any) { hist = append(hist, fmt.Sprintf(f, a...)) }
	logf("tracker(rf=%d,head=%d,commit=%d)", rf, head0, commit0)
	// synced: what the leader's log holds durably. The leader announces it to the tracker (AdvanceHeadOffset) from
	// the sync callback, i.e. a moment after the log readers (the follower cursors) can already see the entry:
	// head <= synced <= next, and a follower may acknowledge anything up to synced.
	head, next, synced := head0, head0, head0
	ackAboveHead := false
	type cursor struct {
		acker   server.CursorAcker
		acked   int64 // acked prefix: every offset <= acked counts for this cursor
		nextAck int64
	}
	var cursors []*cursor
	var waiters []*waiter
	var fireOrder []int64
	var mu sync.Mutex
	lastCommit := commit0
	dupAck, outOfOrderAcross := false, false

	reference := func() int64 {
		// highest o <= head such that every o' in (commit0, o] is acked by >= required cursors
		c := commit0
		for o := commit0 + 1; o <= head; o++ {
			cnt := 0
			for _, cu := range cursors {
				if cu.acked >= o {
					cnt++
				}
			}
			if cnt >= required {
				c = o
			} else {
				break
			}
		}
		return c
	}
	check := func(where string) {
		c := q.CommitOffset()
		if c > q.HeadOffset() {
			t.Fatalf("C08: %s: commit offset %d beyond head %d; history=%v", where, c, q.HeadOffset(), hist)
		}
		if c < lastCommit {
			t.Fatalf("C08: %s: commit offset moved backwards %d -> %d; history=%v", where, lastCommit, c, hist)
		}
		lastCommit = c
		if want := reference(); c != want {
			t.Fatalf("C08: %s: commit offset %d, reference rule gives %d (head %d, required acks %d); history=%v", where, c, want, head, required, hist)
		}
		if q.HeadOffset() != head {
			t.Fatalf("C08: %s: head offset %d, expected %d; history=%v", where, q.HeadOffset(), head, hist)
		}
		mu.Lock()
		defer mu.Unlock()
		for _, w := range waiters {
			if w.fired > 1 {
				t.Fatalf("C08: %s: waiter for offset %d fired %d times; history=%v", where, w.offset, w.fired, hist)
			}
			if w.fired == 1 && w.err == nil && w.offset > c {
				t.Fatalf("C08: %s: waiter for offset %d fired but commit offset is %d; history=%v", where, w.offset, c, hist)
			}
		}
		if !sort.SliceIsSorted(fireOrder, func(i, j int) bool { return fireOrder[i] < fireOrder[j] }) {
			t.Fatalf("C08: %s: waiters fired out of offset order %v; history=%v", where, fireOrder, hist)
		}
	}
	t.Repeat(map[string]func(*rapid.T){
		"nextOffset": func(t *rapid.T) {
			got := q.NextOffset()
			next++
			if got != next {
				t.Fatalf("C08: NextOffset()=%d, expected %d; history=%v", got, next, hist)
			}
			logf("NextOffset=%d", got)
		},
		"logSynced": func(t *rapid.T) {
			if synced >= next {
				t.Skip("nothing allocated beyond the synced offset")
			}
			synced++
			logf("log synced up to %d", synced)
		},
		"advanceHead": func(t *rapid.T) {
			if head >= synced {
				if synced >= next {
					t.Skip("nothing allocated beyond head")
				}
				synced++
			}
			head++
			logf("AdvanceHead(%d)", head)
			q.AdvanceHeadOffset(head)
		},
		"newCursor": func(t *rapid.T) {
			ack := int64(rapid.IntRange(-1, int(head)).Draw(t, "ackOffset"))
			a, err := q.NewCursorAcker(ack)
			logf("NewCursorAcker(%d) err=%v", ack, err)
			if len(cursors) >= int(rf)-1 {
				if err == nil {
					t.Fatalf("C08: more than RF-1 cursors accepted; history=%v", hist)
				}
				return
			}
			if err != nil {
				t.Fatalf("C08: NewCursorAcker(%d) refused: %v; history=%v", ack, err, hist)
			}
			cursors = append(cursors, &cursor{acker: a, acked: ack, nextAck: ack + 1})
		},
		"ack": func(t *rapid.T) {
			if len(cursors) == 0 {
				t.Skip("no cursor")
			}
			ci := rapid.IntRange(0, len(cursors)-1).Draw(t, "cursor")
			cu := cursors[ci]
			if rapid.IntRange(0, 3).Draw(t, "dup") == 0 && cu.acked >= 0 {
				o := int64(rapid.IntRange(0, int(cu.acked)).Draw(t, "dupOffset"))
				logf("cursor%d.Ack(%d) duplicate", ci, o)
				dupAck = true
				cu.acker.Ack(o)
				return
			}
			if cu.nextAck > synced {
				t.Skip("follower has nothing new to ack")
			}
			if cu.nextAck > head {
				ackAboveHead = true
			}
			for _, other := range cursors {
				if other != cu && other.acked < cu.nextAck {
					outOfOrderAcross = true
				}
			}
			logf("cursor%d.Ack(%d)", ci, cu.nextAck)
			cu.acker.Ack(cu.nextAck)
			cu.acked = cu.nextAck
			cu.nextAck++
		},
		"wait": func(t *rapid.T) {
			if next < 0 {
				t.Skip("nothing")
			}
			// the leader registers waiters in offset order (one per appended entry)
			lo := int64(0)
			if len(waiters) > 0 {
				lo = waiters[len(waiters)-1].offset
			}
			// ... and only after the entry is in its own log (AdvanceHeadOffset precedes the wait)
			if lo > head || head < 0 {
				t.Skip("no appended offset to wait for")
			}
			o := rapid.Int64Range(lo, head).Draw(t, "waitOffset")
			w := &waiter{offset: o}
			mu.Lock()
			waiters = append(waiters, w)
			mu.Unlock()
			logf("WaitForCommitOffsetAsync(%d)", o)
			q.WaitForCommitOffsetAsync(nil, o, concurrent.NewOnce(func(any) { //nolint
				mu.Lock()
				w.fired++
				fireOrder = append(fireOrder, w.offset)
				mu.Unlock()
			}, func(err error) {
				mu.Lock()
				w.fired++
				w.err = err
				mu.Unlock()
			}))
		},
		"": func(t *rapid.T) { check("invariant") },
	})
	check("final")
	// every waiter at or below the commit offset has fired
	mu.Lock()
	for _, w := range waiters {
		if w.offset <= lastCommit && w.fired != 1 {
			t.Fatalf("C08: waiter for offset %d did not fire although commit offset is %d; history=%v", w.offset, lastCommit, hist)
		}
	}
	mu.Unlock()
	labels := []string{"tracker"}
	if dupAck {
		labels = append(labels, "duplicate_ack")
	}
	if outOfOrderAcross {
		labels = append(labels, "cross_follower_out_of_order")
	}
	if ackAboveHead {
		labels = append(labels, "ack_before_the_leader_announced_its_own_sync")
	}
	evid.Case("C08", dupAck && outOfOrderAcross, strings.Join(hist, "; "), labels...)
}

func TestC08_Tracker(t *testing.T) {
	rapid.Check(t, runC08Tracker)
}

const kfTrackerRf1Initial = "C08:tracker-without-required-acks-starts-below-head"

// TestKF_C08 re-confirms the listed finding with a scripted input.
func TestKF_C08(t *testing.T) {
	if !evid.Known(kfTrackerRf1Initial) {
		return
	}
	q := server.NewQuorumAckTracker(1, 3, 1)
	defer q.Close()
	if q.CommitOffset() != q.HeadOffset() {
		evid.KnownFinding("C08", fmt.Sprintf("%s: NewQuorumAckTracker(rf=1, head=3, commit=1) reports commit offset %d although no follower ack is required and the leader log holds 0..3 (it only catches up at the next AdvanceHeadOffset)", kfTrackerRf1Initial, q.CommitOffset()))
	}
}
