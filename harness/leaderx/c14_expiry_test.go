//go:build verif

package leaderx

// C14, the expiry path: a session that is not kept alive dies after its timeout (2 s is the smallest timeout the
// server accepts) and takes exactly its ephemeral records with it; a session that is kept alive does not die, also
// across a leader restart (timers are re-armed from the session records found in the database). Real timers are
// used; every verdict is conditioned on gaps the harness measured itself, so that a stalled machine yields an
// inconclusive case, not an alarm.

import (
	"fmt"
	"os"
	"sync"
	"testing"
	"time"

	"pgregory.net/rapid"

	"github.com/oxia-db/oxia/proto"

	"verifharness/evid"
	"verifharness/gen"
	"verifharness/model"
)

// timeouts are drawn per session: 2 s is the smallest the server accepts

type expSession struct {
	timeout   time.Duration
	id        int64
	keepFor   time.Duration // keep-alives are sent during this long (0 = never, <0 = until the end)
	every     time.Duration
	mu        sync.Mutex
	lastBeat  time.Time // last successful keep-alive (or creation / leader restart)
	maxGap    time.Duration
	beatErr   error
	stopped   bool
	abandoned bool
}

func runC14Expiry(t *rapid.T) {
	dir := mkTemp(t, "c14e-")
	defer os.RemoveAll(dir)
	n, err := newNode(dir, 1<<20)
	if err != nil {
		t.Fatalf("node: %v", err)
	}
	defer func() { n.close() }()
	if err := n.lead(true); err != nil {
		t.Fatalf("lead: %v", err)
	}
	c := &c14{t: t, n: n, m: model.New(), pool: gen.Pool(t, 3, 6)}
	nSess := rapid.IntRange(1, 3).Draw(t, "nSessions")
	var ss []*expSession
	for i := 0; i < nSess; i++ {
		sessionTimeout := time.Duration(rapid.SampledFrom([]int{2000, 2000, 3000, 4500}).Draw(t, "timeoutMs")) * time.Millisecond
		resp, err := n.lc.CreateSession(&proto.CreateSessionRequest{Shard: shardId, SessionTimeoutMs: uint32(sessionTimeout.Milliseconds()), ClientIdentity: fmt.Sprintf("c%d", i)})
		if err != nil {
			t.Fatalf("C14: CreateSession failed: %v", err)
		}
		s := &expSession{timeout: sessionTimeout, id: resp.SessionId, lastBeat: time.Now(), every: time.Duration(rapid.IntRange(100, 500).Draw(t, "everyMs")) * time.Millisecond}
		switch rapid.IntRange(0, 2).Draw(t, "fate") {
		case 0:
			s.keepFor, s.abandoned = 0, true
		case 1:
			s.keepFor, s.abandoned = time.Duration(rapid.IntRange(300, 1500).Draw(t, "keepForMs"))*time.Millisecond, true
		default:
			s.keepFor = -1
		}
		c.logf("createSession -> %d timeout=%v keepFor=%v every=%v", s.id, s.timeout, s.keepFor, s.every)
		c.sessions = append(c.sessions, s.id)
		c.m.Sessions[s.id] = true
		ss = append(ss, s)
	}
	// content: ephemeral records of every session, plain records, possibly take-overs
	nW := rapid.IntRange(1, 5).Draw(t, "nWrites")
	for i := 0; i < nW; i++ {
		c.write(gen.WriteRequest(t, c.m, gen.ReqOpts{Pool: c.pool, Sessions: c.sessions, Tag: newTag, MaxPuts: 3}))
	}
	for _, s := range ss {
		id := s.id
		c.write(&proto.WriteRequest{Puts: []*proto.PutRequest{{Key: fmt.Sprintf("eph/%d", id), Value: []byte(newTag()), SessionId: &id}}})
	}
	restartAt := time.Duration(0)
	if rapid.IntRange(0, 2).Draw(t, "restart") == 0 {
		restartAt = time.Duration(rapid.IntRange(200, 1200).Draw(t, "restartAtMs")) * time.Millisecond
	}
	start := time.Now()
	for _, s := range ss {
		s.lastBeat = start
	}
	// keep-alive clients
	var wg sync.WaitGroup
	var lcMu sync.RWMutex // the controller is replaced by a restart
	stopAll := make(chan struct{})
	for _, s := range ss {
		if s.keepFor == 0 {
			continue
		}
		wg.Add(1)
		go func(s *expSession) {
			defer wg.Done()
			for {
				select {
				case <-stopAll:
					return
				case <-time.After(s.every):
				}
				if s.keepFor > 0 && time.Since(start) > s.keepFor {
					s.mu.Lock()
					s.stopped = true
					s.mu.Unlock()
					return
				}
				lcMu.RLock()
				lc := n.lc
				var err error
				if lc != nil {
					err = lc.KeepAlive(s.id)
				}
				lcMu.RUnlock()
				now := time.Now()
				s.mu.Lock()
				if lc != nil && err == nil {
					if g := now.Sub(s.lastBeat); g > s.maxGap {
						s.maxGap = g
					}
					s.lastBeat = now
				} else if err != nil && s.beatErr == nil {
					s.beatErr = err
				}
				s.mu.Unlock()
			}
		}(s)
	}
	restarted := false
	if restartAt > 0 {
		time.Sleep(restartAt)
		c.logf("restart + new term at %v", time.Since(start).Round(time.Millisecond))
		lcMu.Lock()
		err := n.restart()
		if err == nil {
			err = n.lead(true)
		}
		now := time.Now()
		for _, s := range ss {
			s.mu.Lock()
			// the new leader re-arms every session's timer when it takes over
			if g := now.Sub(s.lastBeat); g > s.maxGap {
				s.maxGap = g
			}
			s.lastBeat = now
			s.beatErr = nil
			s.mu.Unlock()
		}
		lcMu.Unlock()
		if err != nil {
			close(stopAll)
			wg.Wait()
			t.Fatalf("C14: cannot restart / lead again: %v; history=%v", err, c.hist)
		}
		restarted = true
	}
	exists := func(key string) (bool, error) {
		lcMu.RLock()
		defer lcMu.RUnlock()
		r, err := n.get(&proto.GetRequest{Key: key})
		if err != nil {
			return false, err
		}
		return r.Status == proto.Status_OK, nil
	}
	// "live with their session": shortly before the timeout of an abandoned session its record is still there
	for _, s := range ss {
		if !s.abandoned {
			continue
		}
		s.mu.Lock()
		last := s.lastBeat
		s.mu.Unlock()
		if s.keepFor > 0 {
			continue // its last beat is still moving; checked at the end only
		}
		sessionTimeout := s.timeout
		wait := time.Until(last.Add(sessionTimeout - 900*time.Millisecond))
		if wait > 0 {
			time.Sleep(wait)
		}
		ok, err := exists(fmt.Sprintf("eph/%d", s.id))
		since := time.Since(last)
		if err == nil && !ok && since < sessionTimeout-300*time.Millisecond {
			close(stopAll)
			wg.Wait()
			t.Fatalf("C14: session %d (timeout %v) lost its ephemeral record %v after its last heartbeat; history=%v", s.id, sessionTimeout, since.Round(time.Millisecond), c.hist)
		}
	}
	// wait until every abandoned session is overdue by a wide margin
	deadline := time.Now()
	for _, s := range ss {
		if !s.abandoned {
			continue
		}
		d := start.Add(s.timeout + 2500*time.Millisecond)
		if s.keepFor > 0 {
			d = start.Add(s.keepFor + s.every + s.timeout + 2500*time.Millisecond)
		}
		if restarted {
			d = d.Add(restartAt)
		}
		if d.After(deadline) {
			deadline = d
		}
	}
	if w := time.Until(deadline); w > 0 {
		time.Sleep(w)
	}
	close(stopAll)
	wg.Wait()
	expired, kept := 0, 0
	for _, s := range ss {
		key := fmt.Sprintf("eph/%d", s.id)
		ok, err := exists(key)
		if err != nil {
			t.Fatalf("C14: read failed: %v; history=%v", err, c.hist)
		}
		s.mu.Lock()
		maxGap, beatErr, last := s.maxGap, s.beatErr, s.lastBeat
		s.mu.Unlock()
		sessionTimeout := s.timeout
		if s.abandoned {
			overdue := time.Since(last) - sessionTimeout
			if ok {
				if overdue < 1500*time.Millisecond {
					t.Skip("inconclusive: the harness did not wait long enough")
				}
				t.Fatalf("C14: session %d received its last heartbeat %v ago (timeout %v) and its ephemeral record %q still exists; history=%v",
					s.id, time.Since(last).Round(time.Millisecond), sessionTimeout, key, c.hist)
			}
			if err := n.lc.KeepAlive(s.id); err == nil {
				t.Fatalf("C14: KeepAlive(%d) succeeds %v after the session's last heartbeat (timeout %v); history=%v", s.id, time.Since(last).Round(time.Millisecond), sessionTimeout, c.hist)
			}
			c.endSession(s.id)
			expired++
			continue
		}
		// kept alive
		if maxGap > sessionTimeout-600*time.Millisecond {
			t.Skip(fmt.Sprintf("inconclusive: the harness itself left a heartbeat gap of %v", maxGap))
		}
		if beatErr != nil || !ok {
			t.Fatalf("C14: session %d was kept alive (largest heartbeat gap %v, timeout %v) but died: keepAlive error=%v, ephemeral record present=%v; history=%v",
				s.id, maxGap.Round(time.Millisecond), sessionTimeout, beatErr, ok, c.hist)
		}
		kept++
	}
	c.checkState("after the expiry of the abandoned sessions")
	var labels []string
	if expired > 0 {
		labels = append(labels, "session_expired")
	}
	if kept > 0 {
		labels = append(labels, "session_kept_alive")
	}
	if restarted {
		labels = append(labels, "leader_restart_rearms_timers")
	}
	evid.Case("C14", expired > 0, fmt.Sprintf("expiry %v", c.hist), labels...)
}

func TestC14_Expiry(t *testing.T) {
	rapid.Check(t, runC14Expiry)
}
