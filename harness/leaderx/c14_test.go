//go:build verif

package leaderx

import (
	"fmt"
	"os"
	"strings"
	"sync"
	"testing"
	"time"

	"pgregory.net/rapid"

	"github.com/oxia-db/oxia/proto"
	"github.com/oxia-db/oxia/server"
	"github.com/oxia-db/oxia/server/kv"

	"verifharness/evid"
	"verifharness/gen"
	"verifharness/model"
)

const kfCleanupForeign = "C14:session-cleanup-deletes-record-taken-over-after-listing"

// gateIterator parks the goroutine that lists the shadow keys of a session right after the listing
// is complete (Valid() turns false), i.e. before the session manager builds its delete request.
type gateIterator struct {
	kv.KeyValueIterator
	parked  chan struct{}
	release chan struct{}
	once    sync.Once
}

func (g *gateIterator) Valid() bool {
	v := g.KeyValueIterator.Valid()
	if !v {
		g.once.Do(func() {
			close(g.parked)
			<-g.release
		})
	}
	return v
}

func toModelDump(d []rawKV) []model.KV {
	out := make([]model.KV, len(d))
	for i, e := range d {
		out[i] = model.KV{Key: e.Key, Value: e.Value}
	}
	return out
}

type c14 struct {
	t        *rapid.T
	n        *node
	m        *model.Shard
	hist     []string
	sessions []int64
	pool     []string
}

func (c *c14) logf(f string, a ...any) { c.hist = append(c.hist, fmt.Sprintf(f, a...)) }

func (c *c14) write(req *proto.WriteRequest) {
	c.logf("%s", gen.FormatRequest(req))
	resp, err := c.n.write(req)
	if err != nil {
		c.t.Fatalf("C14: write failed: %v; history=%v", err, c.hist)
	}
	ts := uint64(0)
	for _, p := range resp.Puts {
		if p.Status == proto.Status_OK && p.Version != nil {
			ts = p.Version.ModifiedTimestamp
		}
	}
	if _, err := c.m.Apply(req, resp, ts); err != nil {
		c.t.Fatalf("C14: %v; history=%v", err, c.hist)
	}
}

func (c *c14) checkState(where string) {
	d, err := dumpKV(c.n.kvF.last())
	if err != nil {
		c.t.Fatalf("dump: %v", err)
	}
	if err := c.m.CheckUserState(toModelDump(d)); err != nil {
		c.t.Fatalf("C14: %s: %v; history=%v", where, err, c.hist)
	}
}

// endSession updates the model for the end of session id at the current log position: exactly the
// records it owns now disappear, the session is dead.
func (c *c14) endSession(id int64) {
	for k, r := range c.m.Recs {
		if r.Session != nil && *r.Session == id {
			delete(c.m.Recs, k)
		}
	}
	delete(c.m.Sessions, id)
}

// keepAlive calls KeepAlive with a bound: a call that does not return is inconclusive, not a violation.
func (c *c14) keepAlive(id int64) (error, bool) {
	ch := make(chan error, 1)
	go func() { ch <- c.n.lc.KeepAlive(id) }()
	select {
	case err := <-ch:
		return err, true
	case <-time.After(20 * time.Second):
		return nil, false
	}
}

func (c *c14) liveSessions() []int64 {
	var out []int64
	for _, s := range c.sessions {
		if c.m.Sessions[s] {
			out = append(out, s)
		}
	}
	return out
}

func runC14(t *rapid.T) {
	dir := mkTemp(t, "c14-")
	defer os.RemoveAll(dir)
	n, err := newNode(dir, 1<<20)
	if err != nil {
		t.Fatalf("node: %v", err)
	}
	defer func() { n.close() }()
	if err := n.lead(true); err != nil {
		t.Fatalf("lead: %v", err)
	}
	c := &c14{t: t, n: n, m: model.New(), pool: gen.Pool(t, 3, 7)}
	takeover, raced, leaderChange, closed := false, false, false, false

	t.Repeat(map[string]func(*rapid.T){
		"createSession": func(t *rapid.T) {
			if len(c.liveSessions()) >= 3 {
				t.Skip("enough sessions")
			}
			resp, err := n.lc.CreateSession(&proto.CreateSessionRequest{Shard: shardId, SessionTimeoutMs: 60000, ClientIdentity: "c"})
			if err != nil {
				t.Fatalf("C14: CreateSession failed: %v; history=%v", err, c.hist)
			}
			c.logf("createSession -> %d", resp.SessionId)
			c.sessions = append(c.sessions, resp.SessionId)
			c.m.Sessions[resp.SessionId] = true
		},
		"write": func(t *rapid.T) {
			req := gen.WriteRequest(t, c.m, gen.ReqOpts{Pool: c.pool, Sessions: c.sessions, IndexNames: []string{"idx"}, Tag: newTag})
			for _, p := range req.Puts {
				if cur := c.m.Recs[p.Key]; cur != nil && cur.Session != nil && (p.SessionId == nil || *p.SessionId != *cur.Session) {
					takeover = true
				}
			}
			c.write(req)
		},
		"keepAlive": func(t *rapid.T) {
			live := c.liveSessions()
			if len(live) == 0 {
				t.Skip("none")
			}
			id := live[rapid.IntRange(0, len(live)-1).Draw(t, "sid")]
			err, returned := c.keepAlive(id)
			if !returned {
				t.Skip("inconclusive: KeepAlive did not return within the bound")
			}
			if err != nil {
				t.Fatalf("C14: KeepAlive(%d) on a live session failed: %v; history=%v", id, err, c.hist)
			}
		},
		"keepAliveDead": func(t *rapid.T) {
			for _, s := range c.sessions {
				if !c.m.Sessions[s] {
					if err := n.lc.KeepAlive(s); err == nil {
						t.Fatalf("C14: KeepAlive(%d) on a closed session succeeded; history=%v", s, c.hist)
					}
					return
				}
			}
			t.Skip("no dead session")
		},
		"closeSession": func(t *rapid.T) {
			live := c.liveSessions()
			if len(live) == 0 {
				t.Skip("none")
			}
			id := live[rapid.IntRange(0, len(live)-1).Draw(t, "sid")]
			c.logf("closeSession(%d)", id)
			if _, err := n.lc.CloseSession(&proto.CloseSessionRequest{Shard: shardId, SessionId: id}); err != nil {
				t.Fatalf("C14: CloseSession(%d) failed: %v; history=%v", id, err, c.hist)
			}
			c.endSession(id)
			closed = true
			c.checkState("after closeSession")
		},
		"closeWithConcurrentWriters": func(t *rapid.T) {
			if evid.Known(kfCleanupForeign) {
				evid.Excluded("C14", kfCleanupForeign)
				t.Skip("excluded by listed known finding")
			}
			live := c.liveSessions()
			if len(live) == 0 {
				t.Skip("none")
			}
			id := live[rapid.IntRange(0, len(live)-1).Draw(t, "sid")]
			var owned []string
			for _, k := range c.m.SortedKeys() {
				if r := c.m.Recs[k]; r.Session != nil && *r.Session == id {
					owned = append(owned, k)
				}
			}
			if len(owned) == 0 {
				t.Skip("session owns nothing")
			}
			lower := server.SessionKey(server.SessionId(id)) + "/"
			g := &gateIterator{parked: make(chan struct{}), release: make(chan struct{})}
			var armed sync.Once
			n.kvF.setRangeScanHook(func(lo, _ string, it kv.KeyValueIterator) kv.KeyValueIterator {
				if lo == lower {
					wrapped := kv.KeyValueIterator(it)
					armed.Do(func() {
						g.KeyValueIterator = it
						wrapped = g
					})
					return wrapped
				}
				return it
			})
			done := make(chan error, 1)
			go func() {
				_, err := n.lc.CloseSession(&proto.CloseSessionRequest{Shard: shardId, SessionId: id})
				done <- err
			}()
			select {
			case <-g.parked:
			case err := <-done:
				n.kvF.setRangeScanHook(nil)
				if err != nil {
					t.Fatalf("C14: CloseSession failed: %v", err)
				}
				c.endSession(id)
				c.checkState("after closeSession (gate not hit)")
				return
			case <-time.After(10 * time.Second):
				n.kvF.setRangeScanHook(nil)
				close(g.release)
				t.Skip("inconclusive: listing gate not reached")
			}
			n.kvF.setRangeScanHook(nil)
			c.logf("closeSession(%d) parked after listing %q", id, owned)
			// other clients now write the listed keys: plain overwrite, takeover by another session, delete + re-create
			nOps := rapid.IntRange(1, 3).Draw(t, "foreignOps")
			for i := 0; i < nOps; i++ {
				k := owned[rapid.IntRange(0, len(owned)-1).Draw(t, "foreignKey")]
				p := &proto.PutRequest{Key: k, Value: []byte(newTag())}
				if others := c.liveSessions(); len(others) > 1 && rapid.Bool().Draw(t, "bySession") {
					for _, o := range others {
						if o != id {
							oo := o
							p.SessionId = &oo
						}
					}
				}
				req := &proto.WriteRequest{Puts: []*proto.PutRequest{p}}
				if rapid.IntRange(0, 3).Draw(t, "deleteFirst") == 0 {
					c.write(&proto.WriteRequest{Deletes: []*proto.DeleteRequest{{Key: k}}})
				}
				c.write(req)
			}
			close(g.release)
			if err := <-done; err != nil {
				t.Fatalf("C14: CloseSession failed: %v; history=%v", err, c.hist)
			}
			c.logf("closeSession(%d) released", id)
			raced = true
			c.endSession(id)
			c.checkState("after a session end that raced with other clients' writes on the listed keys")
		},
		"restart": func(t *rapid.T) {
			c.logf("restart + new term")
			if err := n.restart(); err != nil {
				t.Fatalf("restart: %v", err)
			}
			if err := n.lead(true); err != nil {
				t.Fatalf("C14: cannot lead again: %v; history=%v", err, c.hist)
			}
			leaderChange = true
			c.checkState("after leader change")
			for _, s := range c.liveSessions() {
				if err, returned := c.keepAlive(s); returned && err != nil {
					t.Fatalf("C14: session %d did not survive the leader change: %v; history=%v", s, err, c.hist)
				}
			}
		},
		"newTermSameNode": func(t *rapid.T) {
			c.logf("new term on the same node")
			if err := n.lead(true); err != nil {
				t.Fatalf("C14: cannot lead again: %v; history=%v", err, c.hist)
			}
			leaderChange = true
			for _, s := range c.liveSessions() {
				if err, returned := c.keepAlive(s); returned && err != nil {
					t.Fatalf("C14: session %d did not survive the term change: %v; history=%v", s, err, c.hist)
				}
			}
		},
		"": func(t *rapid.T) {},
	})
	c.checkState("final")
	var labels []string
	for nme, on := range map[string]bool{"takeover": takeover, "close_raced_with_writers": raced, "leader_change": leaderChange, "closed": closed} {
		if on {
			labels = append(labels, nme)
		}
	}
	evid.Case("C14", raced || takeover || (leaderChange && closed), strings.Join(c.hist, "; "), labels...)
}

func TestC14_Sessions(t *testing.T) {
	rapid.Check(t, runC14)
}

// TestKF_C14 re-confirms the listed finding with a scripted schedule.
func TestKF_C14(t *testing.T) {
	if !evid.Known(kfCleanupForeign) {
		return
	}
	dir, _ := os.MkdirTemp(tmpRoot, "kf14-")
	defer os.RemoveAll(dir)
	n, err := newNode(dir, 1<<20)
	if err != nil {
		t.Fatalf("node: %v", err)
	}
	defer n.close()
	if err := n.lead(true); err != nil {
		t.Fatalf("lead: %v", err)
	}
	cs, err := n.lc.CreateSession(&proto.CreateSessionRequest{Shard: shardId, SessionTimeoutMs: 60000})
	if err != nil {
		t.Fatalf("create: %v", err)
	}
	id := cs.SessionId
	if _, err := n.write(&proto.WriteRequest{Puts: []*proto.PutRequest{{Key: "k", Value: []byte("ephemeral"), SessionId: &id}}}); err != nil {
		t.Fatalf("put: %v", err)
	}
	lower := server.SessionKey(server.SessionId(id)) + "/"
	g := &gateIterator{parked: make(chan struct{}), release: make(chan struct{})}
	var armed sync.Once
	n.kvF.setRangeScanHook(func(lo, _ string, it kv.KeyValueIterator) kv.KeyValueIterator {
		if lo == lower {
			w := kv.KeyValueIterator(it)
			armed.Do(func() { g.KeyValueIterator = it; w = g })
			return w
		}
		return it
	})
	done := make(chan error, 1)
	go func() {
		_, err := n.lc.CloseSession(&proto.CloseSessionRequest{Shard: shardId, SessionId: id})
		done <- err
	}()
	select {
	case <-g.parked:
	case <-time.After(10 * time.Second):
		close(g.release)
		return
	}
	n.kvF.setRangeScanHook(nil)
	_, werr := n.write(&proto.WriteRequest{Puts: []*proto.PutRequest{{Key: "k", Value: []byte("plain, owned by nobody")}}})
	close(g.release)
	<-done
	if werr != nil {
		return
	}
	r, err := n.get(&proto.GetRequest{Key: "k", IncludeValue: true})
	if err == nil && r.Status == proto.Status_KEY_NOT_FOUND {
		evid.KnownFinding("C14", kfCleanupForeign+": session S owns 'k'; CloseSession(S) lists its keys; another client overwrites 'k' with a plain put (taking it over) before the cleanup request is written; the cleanup then deletes 'k' unconditionally although S no longer owns it")
	}
}
