//go:build verif

package leaderx

import (
	"fmt"
	"os"
	"sort"
	"strings"
	"testing"

	"pgregory.net/rapid"

	"github.com/oxia-db/oxia/proto"

	"verifharness/evid"
	"verifharness/gen"
	"verifharness/model"
)

type idxEntry struct{ sec, pk string }

// indexEntries derives the entries of one index from the records that currently exist.
func indexEntries(m *model.Shard, name string) []idxEntry {
	seen := map[idxEntry]bool{}
	var out []idxEntry
	for pk, r := range m.Recs {
		for _, ix := range r.Indexes {
			e := idxEntry{ix.Secondary, pk}
			if ix.Name == name && !seen[e] {
				seen[e] = true
				out = append(out, e)
			}
		}
	}
	sort.Slice(out, func(i, j int) bool {
		if c := model.CompareKeys(out[i].sec, out[j].sec); c != 0 {
			return c < 0
		}
		return out[i].pk < out[j].pk
	})
	return out
}

// sameGrouped compares got (primary keys in served order) with want (entries sorted by secondary key):
// order between different secondary keys must match, order inside one secondary key is free.
func sameGrouped(got []string, want []idxEntry) bool {
	if len(got) != len(want) {
		return false
	}
	i := 0
	for i < len(want) {
		j := i
		for j < len(want) && want[j].sec == want[i].sec {
			j++
		}
		a := append([]string{}, got[i:j]...)
		var b []string
		for _, e := range want[i:j] {
			b = append(b, e.pk)
		}
		sort.Strings(a)
		sort.Strings(b)
		if strings.Join(a, "\x00") != strings.Join(b, "\x00") {
			return false
		}
		i = j
	}
	return true
}

func runC15(t *rapid.T) {
	dir := mkTemp(t, "c15-")
	defer os.RemoveAll(dir)
	n, err := newNode(dir, 1<<20)
	if err != nil {
		t.Fatalf("node: %v", err)
	}
	defer n.close()
	if err := n.lead(true); err != nil {
		t.Fatalf("lead: %v", err)
	}
	m := model.New()
	names := []string{"idx", "idx0", "idx-", "id"}[:rapid.IntRange(2, 4).Draw(t, "nIdx")]
	pool := gen.Pool(t, 3, 8)
	var hist []string
	ts := uint64(0)
	probeOutside := false
	logf := func(f string, a ...any) { hist = append(hist, fmt.Sprintf(f, a...)) }

	doWrite := func(req *proto.WriteRequest) {
		logf("%s", gen.FormatRequest(req))
		resp, err := n.write(req)
		if err != nil {
			t.Fatalf("C15: write failed: %v; history=%v", err, hist)
		}
		// the leader stamps entries with its own clock: take the timestamp from the response
		ts = 0
		for _, p := range resp.Puts {
			if p.Status == proto.Status_OK && p.Version != nil {
				ts = p.Version.ModifiedTimestamp
			}
		}
		if _, err := m.Apply(req, resp, ts); err != nil {
			t.Fatalf("C15: %v; history=%v", err, hist)
		}
	}

	checkIndex := func(name string) {
		ents := indexEntries(m, name)
		// list / range-scan over drawn bounds (non-empty, ordered)
		a, b := gen.Key().Draw(t, "lo"), gen.Key().Draw(t, "hi")
		if rapid.Bool().Draw(t, "wide") {
			a, b = "-", "~~~~~~~~"
		}
		if model.CompareKeys(a, b) > 0 {
			a, b = b, a
		}
		var want []idxEntry
		for _, e := range ents {
			if model.CompareKeys(e.sec, a) >= 0 && model.CompareKeys(e.sec, b) < 0 {
				want = append(want, e)
			}
		}
		keys, err := n.list(&proto.ListRequest{StartInclusive: a, EndExclusive: b, SecondaryIndexName: &name})
		if err != nil {
			t.Fatalf("C15: list on index %q failed: %v; history=%v", name, err, hist)
		}
		if !sameGrouped(keys, want) {
			t.Fatalf("C15: list(index=%q,[%q,%q)) = %q, reference entries %v; history=%v", name, a, b, keys, want, hist)
		}
		recs, err := n.rangeScan(&proto.RangeScanRequest{StartInclusive: a, EndExclusive: b, SecondaryIndexName: &name})
		if err != nil {
			t.Fatalf("C15: range-scan on index %q failed: %v; history=%v", name, err, hist)
		}
		var rk []string
		for _, r := range recs {
			if r.Key == nil || r.Status != proto.Status_OK {
				t.Fatalf("C15: range-scan(index=%q) returned a record without key / status %v; history=%v", name, r.Status, hist)
			}
			rk = append(rk, *r.Key)
			if err := m.CheckRecord(*r.Key, r.Value, true, r.Version); err != nil {
				t.Fatalf("C15: range-scan(index=%q): %v; history=%v", name, err, hist)
			}
		}
		if !sameGrouped(rk, want) {
			t.Fatalf("C15: range-scan(index=%q,[%q,%q)) = %q, reference entries %v; history=%v", name, a, b, rk, want, hist)
		}
		// comparison gets
		var secs []string
		for _, e := range ents {
			if len(secs) == 0 || secs[len(secs)-1] != e.sec {
				secs = append(secs, e.sec)
			}
		}
		for i := 0; i < 4; i++ {
			var probe string
			switch rapid.IntRange(0, 4).Draw(t, "probeKind") {
			case 0:
				probe = "-" // before every generated secondary key or equal to the smallest
			case 1:
				probe = "~~~~~~~~~" // after every generated secondary key
			case 2:
				if len(secs) > 0 {
					probe = secs[rapid.IntRange(0, len(secs)-1).Draw(t, "probeIdx")]
				} else {
					probe = "a"
				}
			default:
				probe = gen.Key().Draw(t, "probe")
			}
			for _, cmp := range []proto.KeyComparisonType{proto.KeyComparisonType_EQUAL, proto.KeyComparisonType_FLOOR, proto.KeyComparisonType_CEILING,
				proto.KeyComparisonType_LOWER, proto.KeyComparisonType_HIGHER} {
				wantSec, found := model.GetIn(secs, probe, cmp)
				if len(secs) > 0 && (model.CompareKeys(probe, secs[0]) < 0 || model.CompareKeys(probe, secs[len(secs)-1]) > 0) || len(secs) == 0 {
					probeOutside = true
				}
				res, err := n.get(&proto.GetRequest{Key: probe, IncludeValue: true, ComparisonType: cmp, SecondaryIndexName: &name})
				if err != nil {
					t.Fatalf("C15: get(index=%q,%q,%v) failed: %v; history=%v", name, probe, cmp, err, hist)
				}
				if !found {
					if res.Status != proto.Status_KEY_NOT_FOUND {
						t.Fatalf("C15: get(index=%q,%q,%v) returned key %v (secondary %v) but index %q has no such entry (entries %v); history=%v",
							name, probe, cmp, strOf(res.Key), strOf(res.SecondaryIndexKey), name, ents, hist)
					}
					continue
				}
				if res.Status != proto.Status_OK || res.Key == nil {
					t.Fatalf("C15: get(index=%q,%q,%v) = %v, reference secondary key %q (entries %v); history=%v", name, probe, cmp, res.Status, wantSec, ents, hist)
				}
				ok := false
				for _, e := range ents {
					if e.sec == wantSec && e.pk == *res.Key {
						ok = true
					}
				}
				if !ok || res.SecondaryIndexKey == nil || *res.SecondaryIndexKey != wantSec {
					t.Fatalf("C15: get(index=%q,%q,%v) = primary %q secondary %v, reference secondary key %q (entries %v); history=%v",
						name, probe, cmp, *res.Key, strOf(res.SecondaryIndexKey), wantSec, ents, hist)
				}
				if err := m.CheckRecord(*res.Key, res.Value, true, res.Version); err != nil {
					t.Fatalf("C15: get(index=%q): %v; history=%v", name, err, hist)
				}
			}
		}
	}

	actions := map[string]func(*rapid.T){
		"write": func(t *rapid.T) {
			doWrite(gen.WriteRequest(t, m, gen.ReqOpts{Pool: pool, IndexNames: names, Tag: newTag}))
		},
		"query": func(t *rapid.T) {
			checkIndex(names[rapid.IntRange(0, len(names)-1).Draw(t, "idx")])
		},
		"restart": func(t *rapid.T) {
			logf("restart")
			if err := n.restart(); err != nil {
				t.Fatalf("restart: %v", err)
			}
			if err := n.lead(true); err != nil {
				t.Fatalf("C15: node cannot become leader again: %v; history=%v", err, hist)
			}
		},
	}
	t.Repeat(actions)
	populated := 0
	for _, name := range names {
		checkIndex(name)
		if len(indexEntries(m, name)) > 0 {
			populated++
		}
	}
	labels := []string{}
	if populated >= 2 {
		labels = append(labels, "two_indexes_populated")
	}
	if probeOutside {
		labels = append(labels, "probe_outside_index_range")
	}
	evid.Case("C15", populated >= 2 && probeOutside, strings.Join(hist, "; "), labels...)
}

func strOf(p *string) string {
	if p == nil {
		return "<nil>"
	}
	return fmt.Sprintf("%q", *p)
}

func TestC15_Indexes(t *testing.T) {
	rapid.Check(t, runC15)
}
