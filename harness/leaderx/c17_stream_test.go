//go:build verif

package leaderx

// C17 at the leader: the GetNotifications stream (dispatch loop of the leader controller) delivers, to every
// subscriber, exactly the batches of the committed entries after its start position - in offset order, none
// missing, none twice - and a subscriber that reconnects with the last offset it saw (after its stream ended,
// the leader restarted and a new term began) continues without loss or duplication. The content of each batch is
// checked against the model's net effect of the request at that offset.

import (
	"context"
	"fmt"
	"os"
	"strings"
	"sync"
	"testing"
	"time"

	"pgregory.net/rapid"

	"github.com/oxia-db/oxia/proto"

	"verifharness/evid"
	"verifharness/gen"
	"verifharness/model"
)

const kfNotifKeyVsRangeL = "C17:put-and-delete-range-starting-at-the-same-key-in-one-request"

type notifSub struct {
	id      int
	start   int64 // batches with offset > start are expected
	fromNow bool
	// a "from now" subscription first receives a positioning batch carrying the commit offset of that instant
	positioned bool
	headAtOpen int64
	mu         sync.Mutex
	got        []*proto.NotificationBatch
	ended      chan error
	cancel     context.CancelFunc
	resumes    int
}

func (s *notifSub) OnNext(nb *proto.NotificationBatch) error {
	s.mu.Lock()
	defer s.mu.Unlock()
	if s.fromNow && !s.positioned && len(s.got) == 0 && len(nb.Notifications) == 0 && nb.Timestamp == 0 {
		s.positioned = true
		s.start = nb.Offset
		return nil
	}
	s.got = append(s.got, nb.CloneVT())
	return nil
}

func (s *notifSub) OnComplete(err error) {
	select {
	case s.ended <- err:
	default:
	}
}

func (s *notifSub) lastSeen() int64 {
	s.mu.Lock()
	defer s.mu.Unlock()
	last := s.start
	for _, nb := range s.got {
		if nb.Offset > last {
			last = nb.Offset
		}
	}
	return last
}

func runC17Stream(t *rapid.T) {
	drainPanics()
	dir := mkTemp(t, "c17s-")
	defer os.RemoveAll(dir)
	n, err := newNode(dir, 1<<20)
	if err != nil {
		t.Fatalf("node: %v", err)
	}
	defer func() { n.close() }()
	if err := n.lead(true); err != nil {
		t.Fatalf("lead: %v", err)
	}
	m := model.New()
	pool := gen.Pool(t, 3, 8)
	var hist []string
	logf := func(f string, a ...any) { hist = append(hist, fmt.Sprintf(f, a...)) }
	effAt := map[int64]*model.Effects{} // offset -> net effect of the write at that offset
	descAt := map[int64]string{}
	head := func() int64 { return n.walF.last().LastOffset() }
	var subs []*notifSub
	restarts, resumed := 0, 0

	open := func(s *notifSub) {
		ctx, cancel := context.WithCancel(context.Background())
		s.cancel = cancel
		s.ended = make(chan error, 1)
		req := &proto.NotificationsRequest{Shard: shardId}
		if !s.fromNow {
			st := s.lastSeen()
			req.StartOffsetExclusive = &st
		}
		n.lc.GetNotifications(ctx, req, s)
	}

	doWrite := func(req *proto.WriteRequest) {
		if evid.Known(kfNotifKeyVsRangeL) {
			starts := map[string]bool{}
			for _, r := range req.DeleteRanges {
				starts[r.StartInclusive] = true
			}
			hit := false
			for _, p := range req.Puts {
				hit = hit || starts[p.Key]
			}
			for _, d := range req.Deletes {
				hit = hit || starts[d.Key]
			}
			if hit {
				evid.Excluded("C17", kfNotifKeyVsRangeL)
				req.DeleteRanges = nil
			}
		}
		before := head()
		resp, err := n.write(req)
		if err != nil {
			t.Fatalf("C17: write failed: %v; history=%v", err, hist)
		}
		off := head()
		if off != before+1 {
			t.Fatalf("harness: one write moved the log head from %d to %d; history=%v", before, off, hist)
		}
		ts := uint64(0)
		for _, p := range resp.Puts {
			if p.Status == proto.Status_OK && p.Version != nil {
				ts = p.Version.ModifiedTimestamp
			}
		}
		eff, err := m.Apply(req, resp, ts)
		if err != nil {
			t.Fatalf("C17: %v; history=%v", err, hist)
		}
		effAt[off] = eff
		descAt[off] = gen.FormatRequest(req)
		logf("#%d %s", off, descAt[off])
	}

	// verify: wait until every live subscriber has seen up to the head, then check order and content
	verify := func(final bool) {
		if ps := drainPanics(); len(ps) > 0 {
			evid.Note("C17", "node_goroutine_panic", ps[0])
			t.Skip("inconclusive: a goroutine of the node panicked (a node crash): " + ps[0])
		}
		h := head()
		for _, s := range subs {
			deadline := time.Now().Add(10 * time.Second)
			for s.lastSeen() < h && time.Now().Before(deadline) {
				select {
				case err := <-s.ended:
					s.ended <- err
					deadline = time.Now() // the stream is over: nothing more will come
				default:
					time.Sleep(2 * time.Millisecond)
				}
			}
			s.mu.Lock()
			got := append([]*proto.NotificationBatch(nil), s.got...)
			start, positioned := s.start, s.positioned
			s.mu.Unlock()
			if s.headAtOpen >= 0 {
				// opened "from now": positioned at a committed offset, not beyond what existed (an earlier position only
				// replays batches that are part of the record)
				if !positioned {
					t.Fatalf("C17: subscriber %d (from now) did not receive the positioning batch first; received offsets=%v; history=%v", s.id, offsetsOf(got), hist)
				}
				if start > s.headAtOpen {
					t.Fatalf("C17: subscriber %d (from now) was positioned at offset %d, beyond the log head %d at that instant; history=%v", s.id, start, s.headAtOpen, hist)
				}
			}
			expect := start + 1
			for _, nb := range got {
				if nb.Offset != expect {
					t.Fatalf("C17: subscriber %d (start after %d, %d resumes) received the batch of offset %d where %d was due (loss, duplicate or reordering); received offsets=%v; history=%v",
						s.id, s.start, s.resumes, nb.Offset, expect, offsetsOf(got), hist)
				}
				eff := effAt[nb.Offset]
				if eff == nil {
					t.Fatalf("C17: subscriber %d received a batch for offset %d, which holds no client write; history=%v", s.id, nb.Offset, hist)
				}
				if err := model.CheckNotifications(eff, nb); err != nil {
					t.Fatalf("C17: subscriber %d, batch of offset %d (%s): %v; batch=%s; history=%v", s.id, nb.Offset, descAt[nb.Offset], err, model.FormatBatch(nb), hist)
				}
				if nb.Shard != shardId {
					t.Fatalf("C17: batch of offset %d carries shard %d; history=%v", nb.Offset, nb.Shard, hist)
				}
				expect++
			}
			select {
			case err := <-s.ended:
				s.ended <- err
				// an ended stream is not required to have delivered everything
			default:
				if expect != h+1 {
					t.Fatalf("C17: subscriber %d (start after %d) has a live stream but did not receive the batches of offsets %d..%d within 10 s; received offsets=%v; history=%v",
						s.id, s.start, expect, h, offsetsOf(got), hist)
				}
			}
		}
	}

	actions := map[string]func(*rapid.T){
		"write": func(t *rapid.T) {
			doWrite(gen.WriteRequest(t, m, gen.ReqOpts{Pool: pool, Tag: newTag, MaxPuts: 3}))
		},
		"noop": func(t *rapid.T) {
			// a request that changes nothing still occupies an offset and yields an (empty) batch
			doWrite(&proto.WriteRequest{Deletes: []*proto.DeleteRequest{{Key: "absent/" + newTag()}}})
		},
		"subscribe": func(t *rapid.T) {
			if len(subs) >= 4 {
				t.Skip("enough subscribers")
			}
			s := &notifSub{id: len(subs), headAtOpen: -1}
			h := head()
			if rapid.Bool().Draw(t, "fromNow") {
				s.fromNow, s.start, s.headAtOpen = true, h, h
			} else {
				s.start = int64(rapid.IntRange(-1, int(h)).Draw(t, "startAfter"))
			}
			logf("subscribe%d(after=%d fromNow=%v)", s.id, s.start, s.fromNow)
			open(s)
			subs = append(subs, s)
		},
		"restartLeader": func(t *rapid.T) {
			if restarts >= 2 {
				t.Skip("enough restarts")
			}
			verify(false)
			restarts++
			logf("restartLeader")
			term := n.term
			if err := n.restart(); err != nil {
				t.Fatalf("restart: %v", err)
			}
			n.term = term
			if err := n.lead(true); err != nil {
				t.Fatalf("C17: lead after restart: %v; history=%v", err, hist)
			}
			// every stream of the closed controller must have ended; subscribers reconnect from what they saw
			for _, s := range subs {
				select {
				case <-s.ended:
				case <-time.After(5 * time.Second):
					if ps := drainPanics(); len(ps) > 0 {
						t.Skip("inconclusive: a goroutine of the node panicked (a node crash): " + ps[0])
					}
					t.Fatalf("C17: subscriber %d's stream did not end when its leader was closed; history=%v", s.id, hist)
				}
				s.cancel()
				s.fromNow = false
				s.resumes++
				resumed++
				open(s)
			}
		},
		"reconnect": func(t *rapid.T) {
			if len(subs) == 0 {
				t.Skip("no subscriber")
			}
			s := subs[rapid.IntRange(0, len(subs)-1).Draw(t, "sub")]
			logf("reconnect%d", s.id)
			s.cancel()
			select {
			case <-s.ended:
			case <-time.After(5 * time.Second):
				t.Fatalf("C17: subscriber %d's stream did not end after its context was cancelled; history=%v", s.id, hist)
			}
			s.fromNow = false
			s.resumes++
			resumed++
			open(s)
		},
		"": func(t *rapid.T) {},
	}
	t.Repeat(actions)
	verify(true)
	for _, s := range subs {
		s.cancel()
	}
	var labels []string
	if restarts > 0 && len(subs) > 0 {
		labels = append(labels, "leader_restart_with_subscriber")
	}
	if resumed > 0 {
		labels = append(labels, "resumed_from_last_seen")
	}
	if len(subs) > 1 {
		labels = append(labels, "several_subscribers")
	}
	evid.Case("C17", len(subs) > 0 && resumed > 0 && len(effAt) >= 2, "stream "+strings.Join(hist, "; "), labels...)
}

func offsetsOf(bs []*proto.NotificationBatch) []int64 {
	var out []int64
	for _, b := range bs {
		out = append(out, b.Offset)
	}
	return out
}

func TestC17_Stream(t *testing.T) {
	rapid.Check(t, runC17Stream)
}
