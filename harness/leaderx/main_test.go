package leaderx

import (
	"log/slog"
	"os"
	"testing"

	"verifharness/evid"
)

var tmpRoot string

func TestMain(m *testing.M) {
	slog.SetDefault(slog.New(slog.NewTextHandler(evid.WarnLog(), &slog.HandlerOptions{Level: slog.LevelWarn})))
	var err error
	base := os.Getenv("VERIF_TMP")
	if base == "" {
		base = os.TempDir()
	}
	tmpRoot, err = os.MkdirTemp(base, "leaderx-")
	if err != nil {
		panic(err)
	}
	code := m.Run()
	evid.Flush()
	_ = os.RemoveAll(tmpRoot)
	os.Exit(code)
}
