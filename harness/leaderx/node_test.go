//go:build verif

package leaderx

import (
	"context"
	"fmt"
	time2 "github.com/oxia-db/oxia/common/time"
	"io"
	"os"
	"path/filepath"
	"sync"
	"sync/atomic"
	"time"

	"pgregory.net/rapid"

	"github.com/oxia-db/oxia/common/concurrent"
	"github.com/oxia-db/oxia/proto"
	"github.com/oxia-db/oxia/server"
	"github.com/oxia-db/oxia/server/kv"
	"github.com/oxia-db/oxia/server/wal"
)

var tagCounter atomic.Int64

func newTag() string { return fmt.Sprintf("v%d", tagCounter.Add(1)) }

func mkTemp(t *rapid.T, prefix string) string {
	d, err := os.MkdirTemp(tmpRoot, prefix)
	if err != nil {
		t.Fatalf("mkdtemp: %v", err)
	}
	return d
}

// ---- wrapping factories -------------------------------------------------------------------------

// hookKVFactory wraps the real Pebble factory: keeps every KV handle, lets tests pause
// WriteBatch.Commit and the iterators the session manager uses.
type hookKVFactory struct {
	kv.Factory
	mu           sync.Mutex
	kvs          []kv.KV
	beforeCommit func()
	afterCommit  func()
	onRangeScan  func(lower, upper string, it kv.KeyValueIterator) kv.KeyValueIterator
	openIters    atomic.Int64
}

func (f *hookKVFactory) NewKV(ns string, shard int64) (kv.KV, error) {
	k, err := f.Factory.NewKV(ns, shard)
	if err == nil {
		k = &hookKV{KV: k, f: f}
		f.mu.Lock()
		f.kvs = append(f.kvs, k)
		f.mu.Unlock()
	}
	return k, err
}

func (f *hookKVFactory) last() kv.KV {
	f.mu.Lock()
	defer f.mu.Unlock()
	if len(f.kvs) == 0 {
		return nil
	}
	return f.kvs[len(f.kvs)-1]
}

func (f *hookKVFactory) setCommitHooks(before, after func()) {
	f.mu.Lock()
	f.beforeCommit, f.afterCommit = before, after
	f.mu.Unlock()
}

func (f *hookKVFactory) setRangeScanHook(h func(lower, upper string, it kv.KeyValueIterator) kv.KeyValueIterator) {
	f.mu.Lock()
	f.onRangeScan = h
	f.mu.Unlock()
}

type hookKV struct {
	kv.KV
	f *hookKVFactory
}

func (k *hookKV) NewWriteBatch() kv.WriteBatch {
	return &hookBatch{WriteBatch: k.KV.NewWriteBatch(), k: k}
}

func (k *hookKV) KeyRangeScan(lower, upper string) (kv.KeyIterator, error) {
	return k.RangeScan(lower, upper)
}

func (k *hookKV) RangeScan(lower, upper string) (kv.KeyValueIterator, error) {
	it, err := k.KV.RangeScan(lower, upper)
	if err != nil {
		return nil, err
	}
	k.f.openIters.Add(1)
	it = &countedIterator{KeyValueIterator: it, f: k.f}
	k.f.mu.Lock()
	h := k.f.onRangeScan
	k.f.mu.Unlock()
	if h != nil {
		return h(lower, upper, it), nil
	}
	return it, nil
}

// countedIterator lets the harness wait until the leader's list / range-scan goroutines have closed
// their iterators before it closes the controller: the leader completes the caller's callback before
// the deferred iterator Close runs, and an iterator closed after its Pebble DB panics the process.
type countedIterator struct {
	kv.KeyValueIterator
	f    *hookKVFactory
	once sync.Once
}

func (c *countedIterator) Close() error {
	err := c.KeyValueIterator.Close()
	c.once.Do(func() { c.f.openIters.Add(-1) })
	return err
}

func (f *hookKVFactory) waitIteratorsClosed() {
	for i := 0; i < 5000 && f.openIters.Load() > 0; i++ {
		time.Sleep(time.Millisecond)
	}
}

type hookBatch struct {
	kv.WriteBatch
	k *hookKV
}

func (b *hookBatch) Commit() error {
	b.k.f.mu.Lock()
	before, after := b.k.f.beforeCommit, b.k.f.afterCommit
	b.k.f.mu.Unlock()
	if before != nil {
		before()
	}
	err := b.WriteBatch.Commit()
	if after != nil {
		after()
	}
	return err
}

// hookWalFactory wraps the real WAL factory: keeps every WAL handle and lets tests park goroutines on
// entry to AppendAndSync / after AppendAsync / around Sync.
type hookWalFactory struct {
	wal.Factory
	mu   sync.Mutex
	wals []*hookWal
	// gates (nil = pass through)
	onAppendAndSync func(e *proto.LogEntry)
	onAppendAsync   func(e *proto.LogEntry)
	onSyncEnter     func()
	onSyncExit      func()
	// when set, WALs are built with this clock and no background trimming (wal.NewVerifWal); trimming rounds are
	// run explicitly with wal.VerifTrimOnce
	verifOpts  *wal.FactoryOptions
	verifClock time2.Clock
}

func (f *hookWalFactory) NewWal(ns string, shard int64, p wal.CommitOffsetProvider) (wal.Wal, error) {
	var w wal.Wal
	var err error
	if f.verifOpts != nil {
		w, err = wal.NewVerifWal(ns, shard, f.verifOpts, p, f.verifClock, 24*time.Hour)
	} else {
		w, err = f.Factory.NewWal(ns, shard, p)
	}
	if err != nil {
		return nil, err
	}
	hw := &hookWal{Wal: w, f: f}
	f.mu.Lock()
	f.wals = append(f.wals, hw)
	f.mu.Unlock()
	return hw, nil
}

func (f *hookWalFactory) last() *hookWal {
	f.mu.Lock()
	defer f.mu.Unlock()
	if len(f.wals) == 0 {
		return nil
	}
	return f.wals[len(f.wals)-1]
}

type hookWal struct {
	wal.Wal
	f *hookWalFactory
}

func (w *hookWal) AppendAndSync(e *proto.LogEntry, cb func(error)) {
	w.f.mu.Lock()
	h := w.f.onAppendAndSync
	w.f.mu.Unlock()
	if h != nil {
		h(e)
	}
	w.Wal.AppendAndSync(e, cb)
}

func (w *hookWal) AppendAsync(e *proto.LogEntry) error {
	err := w.Wal.AppendAsync(e)
	w.f.mu.Lock()
	h := w.f.onAppendAsync
	w.f.mu.Unlock()
	if h != nil && err == nil {
		h(e)
	}
	return err
}

func (w *hookWal) Sync(ctx context.Context) error {
	w.f.mu.Lock()
	en, ex := w.f.onSyncEnter, w.f.onSyncExit
	w.f.mu.Unlock()
	if en != nil {
		en()
	}
	err := w.Wal.Sync(ctx)
	if ex != nil {
		ex()
	}
	return err
}

// ---- a single-node leader ------------------------------------------------------------------------

type nullRpc struct{}

func (nullRpc) Close() error { return nil }
func (nullRpc) GetReplicateStream(context.Context, string, string, int64, int64) (proto.OxiaLogReplication_ReplicateClient, error) {
	return nil, fmt.Errorf("no followers in this harness")
}
func (nullRpc) SendSnapshot(context.Context, string, string, int64, int64) (proto.OxiaLogReplication_SendSnapshotClient, error) {
	return nil, fmt.Errorf("no followers in this harness")
}
func (nullRpc) Truncate(string, *proto.TruncateRequest) (*proto.TruncateResponse, error) {
	return nil, fmt.Errorf("no followers in this harness")
}

type node struct {
	// walClock != nil: the WAL uses this clock and walRetention, and trims only when told to
	walClock     time2.Clock
	walRetention time.Duration
	dir          string
	walF         *hookWalFactory
	kvF          *hookKVFactory
	lc           server.LeaderController
	term         int64
	segSize      int32
	rpc          server.ReplicationRpcProvider
}

const shardId = int64(1)

func newNode(dir string, segSize int32) (*node, error) {
	n := &node{dir: dir, segSize: segSize, rpc: nullRpc{}}
	return n, n.open()
}

func (n *node) open() error {
	wopts := &wal.FactoryOptions{BaseWalDir: filepath.Join(n.dir, "wal"), Retention: time.Hour, SegmentSize: n.segSize, SyncData: true}
	n.walF = &hookWalFactory{Factory: wal.NewWalFactory(wopts)}
	if n.walClock != nil {
		wopts.Retention = n.walRetention
		n.walF.verifOpts, n.walF.verifClock = wopts, n.walClock
	}
	f, err := kv.NewPebbleKVFactory(&kv.FactoryOptions{DataDir: filepath.Join(n.dir, "db"), CacheSizeMB: 1})
	if err != nil {
		return err
	}
	n.kvF = &hookKVFactory{Factory: f}
	n.lc, err = server.NewLeaderController(server.Config{NotificationsRetentionTime: time.Hour}, "ns", shardId, n.rpc, n.walF, n.kvF)
	return err
}

// lead fences the node in a new term and makes it the RF=1 leader (what standalone does).
func (n *node) lead(notifications bool) error {
	n.term++
	if _, err := n.lc.NewTerm(&proto.NewTermRequest{Shard: shardId, Term: n.term, Options: &proto.NewTermOptions{EnableNotifications: notifications}}); err != nil {
		return fmt.Errorf("NewTerm(%d): %w", n.term, err)
	}
	ctx, cancel := context.WithTimeout(context.Background(), 20*time.Second)
	defer cancel()
	if _, err := n.lc.BecomeLeader(ctx, &proto.BecomeLeaderRequest{Shard: shardId, Term: n.term, ReplicationFactor: 1}); err != nil {
		return fmt.Errorf("BecomeLeader(%d): %w", n.term, err)
	}
	return nil
}

func (n *node) close() {
	if n.kvF != nil {
		n.kvF.waitIteratorsClosed()
	}
	if n.lc != nil {
		_ = n.lc.Close()
		n.lc = nil
	}
	// The Pebble block cache of the factory is deliberately not released: the leader's list/range-scan
	// goroutines close their iterators after the call has already returned to the caller, and an
	// iterator closed after its cache was freed crashes the process (harness artefact: in a real
	// server the factory lives as long as the process).
}

// restart closes the controller gracefully and builds a fresh one over the same directories.
func (n *node) restart() error {
	n.close()
	return n.open()
}

func (n *node) write(req *proto.WriteRequest) (*proto.WriteResponse, error) {
	ctx, cancel := context.WithTimeout(context.Background(), 20*time.Second)
	defer cancel()
	return n.lc.WriteBlock(ctx, req.CloneVT())
}

type collectCb[T any] struct {
	mu    sync.Mutex
	items []T
	done  chan error
}

func newCollect[T any]() *collectCb[T] { return &collectCb[T]{done: make(chan error, 1)} }
func (c *collectCb[T]) OnNext(t T) error {
	c.mu.Lock()
	c.items = append(c.items, t)
	c.mu.Unlock()
	return nil
}
func (c *collectCb[T]) OnComplete(err error) {
	select {
	case c.done <- err:
	default:
	}
}
func (c *collectCb[T]) wait() ([]T, error) {
	select {
	case err := <-c.done:
		c.mu.Lock()
		defer c.mu.Unlock()
		return c.items, err
	case <-time.After(20 * time.Second):
		return nil, fmt.Errorf("harness timeout")
	}
}

var _ concurrent.StreamCallback[string] = (*collectCb[string])(nil)

func (n *node) get(req *proto.GetRequest) (*proto.GetResponse, error) {
	cb := newCollect[*proto.GetResponse]()
	n.lc.Read(context.Background(), &proto.ReadRequest{Gets: []*proto.GetRequest{req}}, cb)
	items, err := cb.wait()
	if err != nil {
		return nil, err
	}
	if len(items) != 1 {
		return nil, fmt.Errorf("read returned %d responses for 1 get", len(items))
	}
	return items[0], nil
}

func (n *node) list(req *proto.ListRequest) ([]string, error) {
	cb := newCollect[string]()
	n.lc.List(context.Background(), req, cb)
	return cb.wait()
}

func (n *node) rangeScan(req *proto.RangeScanRequest) ([]*proto.GetResponse, error) {
	cb := newCollect[*proto.GetResponse]()
	n.lc.RangeScan(context.Background(), req, cb)
	return cb.wait()
}

type rawKV struct {
	Key   string
	Value []byte
}

func dumpKV(k kv.KV) ([]rawKV, error) {
	it, err := k.RangeScan("", "")
	if err != nil {
		return nil, err
	}
	defer it.Close()
	var out []rawKV
	for ; it.Valid(); it.Next() {
		v, err := it.Value()
		if err != nil {
			return nil, err
		}
		out = append(out, rawKV{it.Key(), append([]byte{}, v...)})
	}
	return out, nil
}

var _ = io.EOF

// ReadAllEntries reads every synced entry of the WAL.
func (w *hookWal) ReadAllEntries() ([]*proto.LogEntry, error) {
	first := w.FirstOffset()
	if first < 0 {
		return nil, nil
	}
	rd, err := w.NewReader(first - 1)
	if err != nil {
		return nil, err
	}
	defer rd.Close()
	var out []*proto.LogEntry
	for rd.HasNext() {
		e, err := rd.ReadNext()
		if err != nil {
			return out, err
		}
		out = append(out, e)
	}
	return out, nil
}
