//go:build verif

package leaderx

import (
	"fmt"

	"github.com/oxia-db/oxia/common/process"
)

// A panic on a goroutine that oxia started through process.DoWithLabels is handed to the harness (verif tag)
// instead of killing the test process. The one seen in this engine: the notification dispatch goroutine of a
// leader controller dereferences lc.db after close() has set it to nil (a crash of the node process in a real
// server, which the listed properties tolerate like any crash). The case is abandoned as inconclusive.
var goroutinePanics = make(chan string, 64)

func init() {
	process.VerifPanicHandler = func(labels map[string]string, v any, _ []byte) {
		select {
		case goroutinePanics <- fmt.Sprintf("%v (goroutine %v)", v, labels["oxia"]):
		default:
		}
	}
}

func drainPanics() []string {
	var out []string
	for {
		select {
		case p := <-goroutinePanics:
			out = append(out, p)
		default:
			return out
		}
	}
}
