//go:build verif

package leaderx

import (
	"os"
	"testing"
	"time"

	"github.com/oxia-db/oxia/proto"
)

func TestSmokeLeader(t *testing.T) {
	dir, _ := os.MkdirTemp(tmpRoot, "smoke-")
	defer os.RemoveAll(dir)
	t0 := time.Now()
	n, err := newNode(dir, 1<<20)
	if err != nil {
		t.Fatal(err)
	}
	if err := n.lead(true); err != nil {
		t.Fatal(err)
	}
	t.Logf("leader up in %v", time.Since(t0))
	t0 = time.Now()
	for i := 0; i < 100; i++ {
		if _, err := n.write(&proto.WriteRequest{Puts: []*proto.PutRequest{{Key: "a", Value: []byte("x")}}}); err != nil {
			t.Fatal(err)
		}
	}
	t.Logf("100 writes in %v", time.Since(t0))
	r, err := n.get(&proto.GetRequest{Key: "a", IncludeValue: true})
	t.Logf("get: %v %v", r, err)
	t0 = time.Now()
	if err := n.restart(); err != nil {
		t.Fatal(err)
	}
	if err := n.lead(true); err != nil {
		t.Fatal(err)
	}
	t.Logf("restart+lead in %v", time.Since(t0))
	n.close()
}
