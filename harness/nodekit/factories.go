//go:build verif

// Package nodekit holds the wrapping WAL / KV factories shared by the node-level engines: they keep
// a handle on every WAL / KV a controller creates (so oracles can read a node's log and database
// through the same public interfaces the node uses) and expose gates on the calls where the
// properties need the harness to observe or pause a goroutine.
package nodekit

import (
	"context"
	"fmt"
	"sync"
	"sync/atomic"
	"time"

	"github.com/oxia-db/oxia/proto"
	"github.com/oxia-db/oxia/server/kv"
	"github.com/oxia-db/oxia/server/wal"
)

type KVFactory struct {
	kv.Factory
	mu           sync.Mutex
	kvs          []kv.KV
	BeforeCommit func()
	AfterCommit  func()
	OnRangeScan  func(lower, upper string, it kv.KeyValueIterator) kv.KeyValueIterator
	OnFlush      func(k kv.KV)
	openIters    atomic.Int64
}

func (f *KVFactory) NewKV(ns string, shard int64) (kv.KV, error) {
	k, err := f.Factory.NewKV(ns, shard)
	if err == nil {
		k = &hookKV{KV: k, f: f}
		f.mu.Lock()
		f.kvs = append(f.kvs, k)
		f.mu.Unlock()
	}
	return k, err
}

// Last returns the most recently opened KV handle (nil if none).
func (f *KVFactory) Last() kv.KV {
	f.mu.Lock()
	defer f.mu.Unlock()
	if len(f.kvs) == 0 {
		return nil
	}
	return f.kvs[len(f.kvs)-1]
}

func (f *KVFactory) SetCommitHooks(before, after func()) {
	f.mu.Lock()
	f.BeforeCommit, f.AfterCommit = before, after
	f.mu.Unlock()
}

func (f *KVFactory) WaitIteratorsClosed() {
	for i := 0; i < 5000 && f.openIters.Load() > 0; i++ {
		time.Sleep(time.Millisecond)
	}
}

type hookKV struct {
	kv.KV
	f *KVFactory
}

func (k *hookKV) NewWriteBatch() kv.WriteBatch {
	return &hookBatch{WriteBatch: k.KV.NewWriteBatch(), k: k}
}

func (k *hookKV) Flush() error {
	err := k.KV.Flush()
	k.f.mu.Lock()
	h := k.f.OnFlush
	k.f.mu.Unlock()
	if h != nil && err == nil {
		h(k.KV)
	}
	return err
}

func (k *hookKV) KeyRangeScan(lower, upper string) (kv.KeyIterator, error) {
	return k.RangeScan(lower, upper)
}

func (k *hookKV) RangeScan(lower, upper string) (kv.KeyValueIterator, error) {
	it, err := k.KV.RangeScan(lower, upper)
	if err != nil {
		return nil, err
	}
	k.f.openIters.Add(1)
	it = &countedIterator{KeyValueIterator: it, f: k.f}
	k.f.mu.Lock()
	h := k.f.OnRangeScan
	k.f.mu.Unlock()
	if h != nil {
		return h(lower, upper, it), nil
	}
	return it, nil
}

type countedIterator struct {
	kv.KeyValueIterator
	f    *KVFactory
	once sync.Once
}

func (c *countedIterator) Close() error {
	err := c.KeyValueIterator.Close()
	c.once.Do(func() { c.f.openIters.Add(-1) })
	return err
}

type hookBatch struct {
	kv.WriteBatch
	k *hookKV
}

func (b *hookBatch) Commit() error {
	b.k.f.mu.Lock()
	before, after := b.k.f.BeforeCommit, b.k.f.AfterCommit
	b.k.f.mu.Unlock()
	if before != nil {
		before()
	}
	err := b.WriteBatch.Commit()
	if after != nil {
		after()
	}
	return err
}

// RawKV is one stored pair of a database dump.
type RawKV struct {
	Key   string
	Value []byte
}

func Dump(k kv.KV) (out []RawKV, err error) {
	// a controller may close its database at any time (role change): Pebble panics on a closed DB
	defer func() {
		if r := recover(); r != nil {
			out, err = nil, fmt.Errorf("database not available: %v", r)
		}
	}()
	if k == nil {
		return nil, fmt.Errorf("no database")
	}
	it, err := k.RangeScan("", "")
	if err != nil {
		return nil, err
	}
	defer it.Close()
	for ; it.Valid(); it.Next() {
		v, err := it.Value()
		if err != nil {
			return nil, err
		}
		out = append(out, RawKV{it.Key(), append([]byte{}, v...)})
	}
	return out, nil
}

type WalFactory struct {
	wal.Factory
	mu   sync.Mutex
	wals []*HookWal
	// gates (nil = pass through)
	OnAppendAndSync func(e *proto.LogEntry)
	OnAppendAsync   func(e *proto.LogEntry)
	OnSyncEnter     func()
	OnSyncExit      func()
}

func (f *WalFactory) NewWal(ns string, shard int64, p wal.CommitOffsetProvider) (wal.Wal, error) {
	w, err := f.Factory.NewWal(ns, shard, p)
	if err != nil {
		return nil, err
	}
	hw := &HookWal{Wal: w, f: f}
	f.mu.Lock()
	f.wals = append(f.wals, hw)
	f.mu.Unlock()
	return hw, nil
}

func (f *WalFactory) Last() *HookWal {
	f.mu.Lock()
	defer f.mu.Unlock()
	if len(f.wals) == 0 {
		return nil
	}
	return f.wals[len(f.wals)-1]
}

func (f *WalFactory) SetGates(appendAndSync, appendAsync func(*proto.LogEntry), syncEnter, syncExit func()) {
	f.mu.Lock()
	f.OnAppendAndSync, f.OnAppendAsync, f.OnSyncEnter, f.OnSyncExit = appendAndSync, appendAsync, syncEnter, syncExit
	f.mu.Unlock()
}

type HookWal struct {
	wal.Wal
	f      *WalFactory
	closed atomic.Bool
}

func (w *HookWal) Close() error {
	w.closed.Store(true)
	return w.Wal.Close()
}

func (w *HookWal) Closed() bool { return w.closed.Load() }

func (w *HookWal) AppendAndSync(e *proto.LogEntry, cb func(error)) {
	w.f.mu.Lock()
	h := w.f.OnAppendAndSync
	w.f.mu.Unlock()
	if h != nil {
		h(e)
	}
	w.Wal.AppendAndSync(e, cb)
}

func (w *HookWal) AppendAsync(e *proto.LogEntry) error {
	err := w.Wal.AppendAsync(e)
	w.f.mu.Lock()
	h := w.f.OnAppendAsync
	w.f.mu.Unlock()
	if h != nil && err == nil {
		h(e)
	}
	return err
}

func (w *HookWal) Sync(ctx context.Context) error {
	w.f.mu.Lock()
	en, ex := w.f.OnSyncEnter, w.f.OnSyncExit
	w.f.mu.Unlock()
	if en != nil {
		en()
	}
	err := w.Wal.Sync(ctx)
	if ex != nil {
		ex()
	}
	return err
}

// ReadAll reads every entry the WAL currently exposes (synced part), tolerant of a closed WAL.
func (w *HookWal) ReadAll() (entries []*proto.LogEntry, err error) {
	defer func() {
		if r := recover(); r != nil {
			err = context.Canceled
		}
	}()
	first := w.FirstOffset()
	if first < 0 {
		return nil, nil
	}
	rd, err := w.NewReader(first - 1)
	if err != nil {
		return nil, err
	}
	defer rd.Close()
	for rd.HasNext() {
		e, err := rd.ReadNext()
		if err != nil {
			return entries, err
		}
		entries = append(entries, e)
	}
	return entries, nil
}
