//go:build verif

package walx

import (
	"bytes"
	"context"
	"errors"
	"fmt"
	"os"
	"path/filepath"
	"sort"
	"strings"
	"sync/atomic"
	"testing"
	"time"

	"pgregory.net/rapid"

	time2 "github.com/oxia-db/oxia/common/time"
	"github.com/oxia-db/oxia/proto"
	"github.com/oxia-db/oxia/server/wal"

	"verifharness/evid"
)

type commitProvider struct{ v atomic.Int64 }

func (c *commitProvider) CommitOffset() int64 { return c.v.Load() }

var caseCounter atomic.Int64

// walModel is the list model of property C09.
type walModel struct {
	ents     map[int64]*proto.LogEntry // every entry physically expected (>= lowKept)
	lowKept  int64                     // lowest offset that may still be physically present (-1 if none)
	first    int64                     // -1 when empty
	appended int64                     // -1 when empty
	synced   int64
	lastTerm int64
	lastTs   uint64
	// generator guidance only (not used by the oracle)
	pos    map[int64][2]int64 // offset -> (segment base, file offset of record)
	curSeg int64
	curOff int64
}

func newModel() *walModel {
	return &walModel{ents: map[int64]*proto.LogEntry{}, lowKept: -1, first: -1, appended: -1, synced: -1, pos: map[int64][2]int64{}, lastTs: 1000000}
}

func (m *walModel) clear() {
	m.ents = map[int64]*proto.LogEntry{}
	m.pos = map[int64][2]int64{}
	m.lowKept, m.first, m.appended, m.synced = -1, -1, -1, -1
	m.curSeg, m.curOff = 0, 0
}

func recSize(e *proto.LogEntry) int64 { return int64(12 + e.SizeVT()) }

func (m *walModel) append(e *proto.LogEntry, segSize int64) {
	if m.appended == -1 {
		m.first = e.Offset
		m.lowKept = e.Offset
		m.curSeg = 0
		if e.Offset != 0 {
			m.curSeg = e.Offset
		}
		m.curOff = 0
	}
	rs := recSize(e)
	if m.curOff+rs > segSize {
		m.curSeg = e.Offset
		m.curOff = 0
	}
	m.pos[e.Offset] = [2]int64{m.curSeg, m.curOff}
	m.curOff += rs
	m.ents[e.Offset] = e
	m.appended = e.Offset
	m.lastTerm, m.lastTs = e.Term, e.Timestamp
}

func (m *walModel) truncate(o int64) {
	for k := range m.ents {
		if k > o {
			delete(m.ents, k)
			delete(m.pos, k)
		}
	}
	m.appended, m.synced = o, o
	p := m.pos[o]
	m.curSeg, m.curOff = p[0], p[1]+recSize(m.ents[o])
	m.lastTerm, m.lastTs = m.ents[o].Term, m.ents[o].Timestamp
}

func sameEntry(a, b *proto.LogEntry) bool {
	return a.Term == b.Term && a.Offset == b.Offset && a.Timestamp == b.Timestamp && bytes.Equal(a.Value, b.Value)
}

func segmentBases(dir string) []int64 {
	des, _ := os.ReadDir(dir)
	var out []int64
	for _, de := range des {
		n := de.Name()
		if strings.HasSuffix(n, ".txnx") || strings.HasSuffix(n, ".txn") {
			var id int64
			if _, err := fmt.Sscanf(n, "%d.", &id); err == nil {
				out = append(out, id)
			}
		}
	}
	sort.Slice(out, func(i, j int) bool { return out[i] < out[j] })
	return out
}

type walCase struct {
	t          *rapid.T
	dir        string
	opts       *wal.FactoryOptions
	cp         *commitProvider
	clock      *time2.MockedClock
	w          wal.Wal
	m          *walModel
	ops        []string
	rollover   bool
	crossSeg   bool
	belowFirst bool
	reopen     bool
	trimmed    bool
	clearAt    bool
}

func (c *walCase) open() {
	w, err := wal.NewVerifWal("ns", 1, c.opts, c.cp, c.clock, time.Hour)
	if err != nil {
		c.t.Fatalf("open wal: %v (ops=%v)", err, c.ops)
	}
	c.w = w
}

func (c *walCase) walDir() string { return filepath.Join(c.dir, "ns", "shard-1") }

func (c *walCase) logf(f string, a ...any) { c.ops = append(c.ops, fmt.Sprintf(f, a...)) }

// checkHeads compares first/last with the model.
func (c *walCase) checkHeads(where string) {
	if got := c.w.LastOffset(); got != c.m.synced {
		c.t.Fatalf("%s: LastOffset()=%d, model synced last=%d; ops=%v", where, got, c.m.synced, c.ops)
	}
	if got := c.w.FirstOffset(); got != c.m.first {
		c.t.Fatalf("%s: FirstOffset()=%d, model first=%d; ops=%v", where, got, c.m.first, c.ops)
	}
}

func (c *walCase) fullRead(where string) {
	m := c.m
	// forward from first
	if m.first >= 0 && m.synced >= m.first {
		after := m.first - 1
		if m.synced >= m.first {
			after = rapid.Int64Range(m.first-1, m.synced).Draw(c.t, "readAfter")
		}
		r, err := c.w.NewReader(after)
		if err != nil {
			c.t.Fatalf("%s: NewReader(%d): %v; ops=%v", where, after, err, c.ops)
		}
		n := after + 1
		for r.HasNext() {
			e, err := r.ReadNext()
			if err != nil {
				c.t.Fatalf("%s: forward ReadNext at %d: %v; ops=%v", where, n, err, c.ops)
			}
			want := m.ents[n]
			if want == nil || !sameEntry(e, want) {
				c.t.Fatalf("%s: forward read at %d got %v want %v; ops=%v", where, n, e, want, c.ops)
			}
			n++
		}
		if n != m.synced+1 {
			c.t.Fatalf("%s: forward reader stopped at %d, model last %d; ops=%v", where, n-1, m.synced, c.ops)
		}
		_ = r.Close()
	} else if m.first == -1 {
		r, err := c.w.NewReader(-1)
		if err == nil {
			if r.HasNext() {
				c.t.Fatalf("%s: empty log but forward reader HasNext; ops=%v", where, c.ops)
			}
			_ = r.Close()
		}
	}
	if m.synced < m.first || m.synced == -1 {
		return // nothing synced yet: readers are specified over the synced log only
	}
	// reverse
	rr, err := c.w.NewReverseReader()
	if err != nil {
		c.t.Fatalf("%s: NewReverseReader: %v", where, err)
	}
	n := m.synced
	for rr.HasNext() {
		e, err := rr.ReadNext()
		if err != nil {
			c.t.Fatalf("%s: reverse ReadNext at %d: %v; ops=%v", where, n, err, c.ops)
		}
		want := m.ents[n]
		if want == nil || !sameEntry(e, want) {
			c.t.Fatalf("%s: reverse read at %d got %v want %v; ops=%v", where, n, e, want, c.ops)
		}
		n--
	}
	wantStop := m.first - 1
	if n != wantStop {
		c.t.Fatalf("%s: reverse reader stopped after %d, model first %d; ops=%v", where, n+1, m.first, c.ops)
	}
	_ = rr.Close()
}

func (c *walCase) genEntry(offset int64) *proto.LogEntry {
	t := c.t
	m := c.m
	term := m.lastTerm
	if rapid.IntRange(0, 5).Draw(t, "termBump") == 0 {
		term += int64(rapid.IntRange(1, 3).Draw(t, "termInc"))
	}
	ts := m.lastTs + uint64(rapid.IntRange(0, 2000).Draw(t, "tsInc"))
	seg := int64(c.opts.SegmentSize)
	e := &proto.LogEntry{Term: term, Offset: offset, Timestamp: ts}
	base := int64(12 + e.SizeVT()) // record size with empty value
	maxVal := seg - base - 4
	if maxVal > 400 {
		maxVal = 400
	}
	if maxVal < 0 {
		maxVal = 0
	}
	var n int64
	switch rapid.IntRange(0, 5).Draw(t, "sizeMode") {
	case 0, 1: // land exactly at / just before / just beyond the end of the current segment
		remaining := seg - m.curOff - base
		delta := int64(rapid.IntRange(-3, 2).Draw(t, "edge"))
		n = remaining - 3 + delta // value field adds ~2-3 bytes of framing
		if n < 0 || n > maxVal {
			n = rapid.Int64Range(0, maxVal).Draw(t, "valLen")
		}
	default:
		n = rapid.Int64Range(0, maxVal).Draw(t, "valLen")
		if n > 40 && rapid.Bool().Draw(t, "small") {
			n = n % 40
		}
	}
	val := make([]byte, n)
	tag := fmt.Sprintf("<%d:%d>", offset, caseCounter.Load())
	for i := range val {
		val[i] = tag[i%len(tag)]
	}
	e.Value = val
	for recSize(e) > seg { // keep inside the sound domain: an entry always fits an empty segment
		e.Value = e.Value[:len(e.Value)-1]
	}
	return e
}

func (c *walCase) afterAppend() {
	if len(segmentBases(c.walDir())) > 1 {
		c.rollover = true
	}
}

func runC09(t *rapid.T) {
	caseCounter.Add(1)
	dir, err := os.MkdirTemp(tmpRoot, "c09-")
	if err != nil {
		t.Fatalf("mkdtemp: %v", err)
	}
	defer os.RemoveAll(dir)
	segSize := rapid.SampledFrom([]int32{128, 160, 256, 300, 512, 1024, 4096, 8192}).Draw(t, "segSize")
	if rapid.IntRange(0, 3).Draw(t, "segAny") == 0 {
		segSize = int32(rapid.IntRange(128, 8192).Draw(t, "segSizeAny"))
	}
	retention := time.Duration(rapid.IntRange(1, 5000).Draw(t, "retentionMs")) * time.Millisecond
	c := &walCase{
		t:   t,
		dir: dir,
		opts: &wal.FactoryOptions{BaseWalDir: dir, Retention: retention, SegmentSize: segSize,
			SyncData: rapid.Bool().Draw(t, "syncData")},
		cp:    &commitProvider{},
		clock: &time2.MockedClock{},
		m:     newModel(),
	}
	c.cp.v.Store(-1)
	c.logf("open seg=%d sync=%v retentionMs=%d", segSize, c.opts.SyncData, retention.Milliseconds())
	c.open()
	defer func() {
		if c.w != nil {
			// bounded: a log that is blocked (reported above) must not block the clean-up as well
			w, done := c.w, make(chan struct{})
			go func() { _ = w.Close(); close(done) }()
			select {
			case <-done:
			case <-time.After(5 * time.Second):
			}
		}
	}()
	seg := int64(segSize)

	nextOffset := func() int64 {
		if c.m.appended == -1 {
			if rapid.IntRange(0, 2).Draw(t, "startNonZero") == 0 {
				k := int64(rapid.IntRange(1, 50).Draw(t, "startOffset"))
				// the follower-after-snapshot path: the DB's commit offset is the snapshot's (k-1)
				if rapid.Bool().Draw(t, "snapshotCommit") {
					c.cp.v.Store(k - 1)
				}
				return k
			}
			return 0
		}
		return c.m.appended + 1
	}

	actions := map[string]func(*rapid.T){
		"append": func(t *rapid.T) {
			off := nextOffset()
			if c.m.appended == -1 && off > 0 {
				c.clearAt = true
			}
			e := c.genEntry(off)
			c.logf("Append(o=%d,term=%d,ts=%d,len=%d)", e.Offset, e.Term, e.Timestamp, len(e.Value))
			if err := c.w.Append(e); err != nil {
				t.Fatalf("Append(%d) failed: %v; ops=%v", off, err, c.ops)
			}
			c.m.append(e, seg)
			c.m.synced = c.m.appended
			c.afterAppend()
		},
		"appendMany": func(t *rapid.T) {
			n := rapid.IntRange(2, 12).Draw(t, "n")
			for i := 0; i < n; i++ {
				off := nextOffset()
				if c.m.appended == -1 && off > 0 {
					c.clearAt = true
				}
				e := c.genEntry(off)
				c.logf("AppendAsync(o=%d,term=%d,ts=%d,len=%d)", e.Offset, e.Term, e.Timestamp, len(e.Value))
				if err := c.w.AppendAsync(e); err != nil {
					t.Fatalf("AppendAsync(%d) failed: %v; ops=%v", off, err, c.ops)
				}
				c.m.append(e, seg)
				if !c.opts.SyncData {
					// nothing: LastOffset only moves on Sync
				}
			}
			c.afterAppend()
		},
		"sync": func(t *rapid.T) {
			c.logf("Sync")
			ctx, cancel := context.WithTimeout(context.Background(), 20*time.Second)
			defer cancel()
			if err := c.w.Sync(ctx); err != nil {
				t.Fatalf("Sync: %v; ops=%v", err, c.ops)
			}
			c.m.synced = c.m.appended
		},
		"appendAndSync": func(t *rapid.T) {
			off := nextOffset()
			if c.m.appended == -1 && off > 0 {
				c.clearAt = true
			}
			e := c.genEntry(off)
			c.logf("AppendAndSync(o=%d,term=%d,ts=%d,len=%d)", e.Offset, e.Term, e.Timestamp, len(e.Value))
			ch := make(chan error, 1)
			c.w.AppendAndSync(e, func(err error) { ch <- err })
			select {
			case err := <-ch:
				if err != nil {
					t.Fatalf("AppendAndSync(%d) failed: %v; ops=%v", off, err, c.ops)
				}
			case <-time.After(20 * time.Second):
				t.Skip("inconclusive: AppendAndSync callback not fired within bound")
			}
			c.m.append(e, seg)
			c.m.synced = c.m.appended
			c.afterAppend()
		},
		"appendWrongOffset": func(t *rapid.T) {
			if c.m.appended == -1 {
				t.Skip("empty log accepts any offset")
			}
			off := c.m.appended + 1 + int64(rapid.SampledFrom([]int{-3, -2, -1, 1, 2, 7}).Draw(t, "skew"))
			if off < 0 {
				off = c.m.appended + 2
			}
			e := c.genEntry(off)
			c.logf("AppendWrong(o=%d)", off)
			var err error
			switch rapid.IntRange(0, 1).Draw(t, "how") {
			case 0:
				err = c.w.AppendAsync(e)
			default:
				err = c.w.Append(e)
			}
			if err == nil {
				t.Fatalf("append at wrong offset %d (last appended %d) was accepted; ops=%v", off, c.m.appended, c.ops)
			}
		},
		"truncate": func(t *rapid.T) {
			var o int64
			if c.m.appended == -1 {
				o = int64(rapid.IntRange(-1, 5).Draw(t, "truncEmpty"))
				c.logf("TruncateLog(%d) on empty", o)
				got, err, returned := boundedTruncate(c.w, o)
				if !returned {
					t.Fatalf("C09: TruncateLog(%d) on an empty log did not return within 30 s; ops=%v", o, c.ops)
				}
				if err != nil || got != -1 {
					t.Fatalf("TruncateLog(%d) on empty log = %d,%v; ops=%v", o, got, err, c.ops)
				}
				return
			}
			bases := segmentBases(c.walDir())
			kind := rapid.IntRange(0, 10).Draw(t, "truncKind")
			if kind == 10 && !(c.m.first > 0 && len(bases) > 0 && bases[0] == c.m.first && c.m.lowKept == c.m.first) {
				kind = 9
			}
			switch kind {
			case 10:
				// the log starts above the requested offset (it was cleared and continued further up, as on a
				// follower that installed a snapshot and is then truncated to the snapshot offset by a leader
				// whose log ends there): nothing of it is left
				o = rapid.Int64Range(0, c.m.first-1).Draw(t, "truncBelowFirst")
				c.belowFirst = true
				c.logf("TruncateLog(%d) below first=%d bases=%v", o, c.m.first, bases)
				got, err, returned := boundedTruncate(c.w, o)
				if !returned {
					t.Fatalf("C09: TruncateLog(%d) on a log that starts at %d did not return within 30 s (the log is blocked); ops=%v", o, c.m.first, c.ops)
				}
				if err != nil || got != -1 {
					t.Fatalf("C09: TruncateLog(%d) on a log that starts at %d = %d,%v, expected an empty log (-1); ops=%v", o, c.m.first, got, err, c.ops)
				}
				c.m.clear()
				c.cp.v.Store(-1)
				return
			case 0:
				o = -1
			case 1:
				o = c.m.appended
			case 2, 3:
				o = c.m.first + (c.m.appended-c.m.first)/int64(rapid.IntRange(2, 6).Draw(t, "div"))
			default:
				o = rapid.Int64Range(c.m.first, c.m.appended).Draw(t, "truncTo")
			}
			if cm := c.cp.v.Load(); o >= 0 && o < cm {
				// committed entries are never truncated by the controllers: the commit offset the
				// provider reports is <= the truncation point
				c.cp.v.Store(o)
			}
			if o >= 0 && len(bases) > 1 && o < bases[len(bases)-1] {
				c.crossSeg = true
			}
			c.logf("TruncateLog(%d) bases=%v", o, bases)
			got, err, returned := boundedTruncate(c.w, o)
			if !returned {
				t.Fatalf("C09: TruncateLog(%d) did not return within 30 s (the log is blocked); ops=%v", o, c.ops)
			}
			if err != nil {
				t.Fatalf("TruncateLog(%d): %v; ops=%v", o, err, c.ops)
			}
			if got != o {
				t.Fatalf("TruncateLog(%d) returned %d; ops=%v", o, got, c.ops)
			}
			if o == -1 {
				c.m.clear()
				c.cp.v.Store(-1)
			} else {
				c.m.truncate(o)
			}
		},
		"clear": func(t *rapid.T) {
			c.logf("Clear")
			if err := c.w.Clear(); err != nil {
				t.Fatalf("Clear: %v; ops=%v", err, c.ops)
			}
			c.m.clear()
			c.cp.v.Store(-1)
		},
		"reopen": func(t *rapid.T) {
			c.logf("Close+reopen")
			if err := c.w.Close(); err != nil {
				t.Fatalf("Close: %v; ops=%v", err, c.ops)
			}
			c.w = nil
			c.open()
			c.reopen = true
			// a graceful close keeps everything appended
			c.m.synced = c.m.appended
			// after reopen the reported first offset may fall back to the base of the oldest
			// surviving segment (trimming removes whole segments only): never above the model's
			// first, never below the lowest offset still physically kept.
			f := c.w.FirstOffset()
			if c.m.first == -1 {
				if f != -1 {
					t.Fatalf("reopen of empty log reports first=%d; ops=%v", f, c.ops)
				}
			} else {
				if f > c.m.first || f < c.m.lowKept {
					t.Fatalf("reopen: FirstOffset()=%d outside [%d,%d]; ops=%v", f, c.m.lowKept, c.m.first, c.ops)
				}
				c.m.first = f
			}
		},
		"trim": func(t *rapid.T) {
			if c.m.synced == -1 {
				t.Skip("empty")
			}
			// choose "now" around the timestamps present
			lo := c.m.ents[c.m.first].Timestamp
			hi := c.m.lastTs
			now := int64(lo) + int64(rapid.Int64Range(-100, int64(hi-lo)+6000).Draw(t, "nowDelta"))
			if now < 0 {
				now = 0
			}
			c.clock.Set(now)
			commit := rapid.Int64Range(-1, c.m.synced).Draw(t, "commit")
			if rapid.Bool().Draw(t, "commitHigh") {
				commit = c.m.synced
			}
			c.cp.v.Store(commit)
			f0 := c.m.first
			c.logf("Trim(now=%d, commit=%d)", now, commit)
			if err := wal.VerifTrimOnce(c.w); err != nil {
				t.Fatalf("trim: %v; ops=%v", err, c.ops)
			}
			f1 := c.w.FirstOffset()
			if f1 < f0 {
				t.Fatalf("trim moved first offset backwards %d -> %d; ops=%v", f0, f1, c.ops)
			}
			if f1 > f0 {
				c.trimmed = true
				if f1 > commit {
					t.Fatalf("trim removed entries up to %d, above commit offset %d; ops=%v", f1-1, commit, c.ops)
				}
				if f1 > c.m.synced {
					t.Fatalf("trim removed beyond last %d; ops=%v", c.m.synced, c.ops)
				}
				cutoff := now - c.opts.Retention.Milliseconds()
				for o := f0; o < f1; o++ {
					if int64(c.m.ents[o].Timestamp) > cutoff {
						t.Fatalf("trim removed entry %d (ts %d) newer than cutoff %d; ops=%v", o, c.m.ents[o].Timestamp, cutoff, c.ops)
					}
				}
				c.m.first = f1
			}
			// physically, whole segments below the one containing f1 are gone; everything >= the
			// base of that segment is kept. Conservative lower bound for what may reappear at reopen:
			bases := segmentBases(c.walDir())
			if len(bases) > 0 && bases[0] > c.m.lowKept {
				if bases[0] > c.m.first {
					t.Fatalf("trim: lowest segment base %d above first offset %d; ops=%v", bases[0], c.m.first, c.ops)
				}
				c.m.lowKept = bases[0]
			}
		},
		"": func(t *rapid.T) {
			c.checkHeads("invariant")
			if rapid.IntRange(0, 3).Draw(t, "doRead") == 0 {
				c.fullRead("periodic")
			}
		},
	}
	t.Repeat(actions)

	// final: sync, full read both ways, append at last+1 accepted and round-trips
	ctx, cancel := context.WithTimeout(context.Background(), 20*time.Second)
	defer cancel()
	if err := c.w.Sync(ctx); err != nil {
		t.Fatalf("final Sync: %v; ops=%v", err, c.ops)
	}
	c.m.synced = c.m.appended
	c.checkHeads("final")
	c.fullRead("final")
	off := int64(0)
	if c.m.appended >= 0 {
		off = c.m.appended + 1
	}
	e := c.genEntry(off)
	if err := c.w.Append(e); err != nil {
		t.Fatalf("final Append(%d) rejected: %v; ops=%v", off, err, c.ops)
	}
	c.m.append(e, seg)
	c.m.synced = c.m.appended
	c.checkHeads("final+1")
	c.fullRead("final+1")

	nontrivial := c.rollover && (c.crossSeg || c.reopen || c.trimmed || c.clearAt)
	var labels []string
	for name, on := range map[string]bool{"rollover": c.rollover, "cross_segment_truncate": c.crossSeg, "truncate_below_first_offset": c.belowFirst, "reopen": c.reopen,
		"trim_removed": c.trimmed, "append_after_clear_nonzero": c.clearAt, "syncdata": c.opts.SyncData} {
		if on {
			labels = append(labels, name)
		}
	}
	evid.Case("C09", nontrivial, strings.Join(c.ops, "; "), labels...)
}

func TestC09_WalModel(t *testing.T) {
	rapid.Check(t, runC09)
}

var _ = errors.New

// boundedTruncate: a local log operation that does not return within 30 s is a blocked log, not a slow one.
func boundedTruncate(w wal.Wal, o int64) (int64, error, bool) {
	type res struct {
		o   int64
		err error
	}
	ch := make(chan res, 1)
	go func() {
		got, err := w.TruncateLog(o)
		ch <- res{got, err}
	}()
	select {
	case r := <-ch:
		return r.o, r.err, true
	case <-time.After(30 * time.Second):
		return 0, nil, false
	}
}
