//go:build verif

package walx

import (
	"context"
	"encoding/binary"
	"fmt"
	"os"
	"path/filepath"
	"sort"
	"strings"
	"testing"
	"time"

	"pgregory.net/rapid"

	time2 "github.com/oxia-db/oxia/common/time"
	"github.com/oxia-db/oxia/proto"
	"github.com/oxia-db/oxia/server/wal"

	"verifharness/evid"
)

// ---- helpers -------------------------------------------------------------------------------

type segFile struct {
	base   int64
	v1     bool
	path   string
	recs   []recPos // record positions as written by the real WAL (walked before any damage)
}

type recPos struct {
	offset int64 // log offset
	start  int   // byte position of the record header
	end    int   // byte position after the payload
}

func hdrSize(v1 bool) int {
	if v1 {
		return 4
	}
	return 12
}

// walkSegments lists the segment files of dir and walks the records of each (on intact files).
func walkSegments(dir string) []*segFile {
	des, _ := os.ReadDir(dir)
	var segs []*segFile
	for _, de := range des {
		n := de.Name()
		var v1 bool
		switch {
		case strings.HasSuffix(n, ".txnx"):
		case strings.HasSuffix(n, ".txn"):
			v1 = true
		default:
			continue
		}
		var base int64
		if _, err := fmt.Sscanf(n, "%d.", &base); err != nil {
			continue
		}
		segs = append(segs, &segFile{base: base, v1: v1, path: filepath.Join(dir, n)})
	}
	sort.Slice(segs, func(i, j int) bool { return segs[i].base < segs[j].base })
	for _, s := range segs {
		b, _ := os.ReadFile(s.path)
		pos, off := 0, s.base
		h := hdrSize(s.v1)
		for pos+h <= len(b) {
			sz := int(binary.BigEndian.Uint32(b[pos:]))
			if sz == 0 || pos+h+sz > len(b) {
				break
			}
			s.recs = append(s.recs, recPos{offset: off, start: pos, end: pos + h + sz})
			pos += h + sz
			off++
		}
	}
	return segs
}

func idxPath(s *segFile) string {
	if s.v1 {
		return strings.TrimSuffix(s.path, ".txn") + ".idx"
	}
	return strings.TrimSuffix(s.path, ".txnx") + ".idxx"
}

func copyDir(src, dst string) error {
	if err := os.MkdirAll(dst, 0o755); err != nil {
		return err
	}
	des, err := os.ReadDir(src)
	if err != nil {
		return err
	}
	for _, de := range des {
		b, err := os.ReadFile(filepath.Join(src, de.Name()))
		if err != nil {
			return err
		}
		if err := os.WriteFile(filepath.Join(dst, de.Name()), b, 0o644); err != nil {
			return err
		}
	}
	return nil
}

type builtWal struct {
	root     string // BaseWalDir of the image
	dir      string // <root>/ns/shard-1
	segSize  int32
	ents     []*proto.LogEntry
	synced   int64
	appended int64
	v1First  bool
	ops      []string
}

// buildWal creates a real WAL, appends `nSynced` synced entries and `nTail` appended-but-unsynced
// entries, and copies its directory into a fresh image directory while the unsynced tail is still
// unsynced (graceful=false) or after a graceful close (graceful=true).
func buildWal(t *rapid.T, graceful bool, allowV1 bool) *builtWal {
	caseCounter.Add(1)
	src, err := os.MkdirTemp(tmpRoot, "c10src-")
	if err != nil {
		t.Fatalf("mkdtemp: %v", err)
	}
	defer os.RemoveAll(src)
	segSize := rapid.SampledFrom([]int32{128, 192, 256, 512, 1024, 4096, 8192}).Draw(t, "segSize")
	b := &builtWal{segSize: segSize}
	if allowV1 && rapid.IntRange(0, 3).Draw(t, "v1") == 0 {
		// legacy format: a pre-existing (empty) v1 segment file makes the WAL keep writing v1 records into it
		b.v1First = true
		d := filepath.Join(src, "ns", "shard-1")
		_ = os.MkdirAll(d, 0o755)
		if err := os.WriteFile(filepath.Join(d, "0.txn"), make([]byte, int(segSize)+1), 0o644); err != nil {
			t.Fatalf("v1 seed: %v", err)
		}
	}
	opts := &wal.FactoryOptions{BaseWalDir: src, Retention: time.Hour, SegmentSize: segSize, SyncData: true}
	cp := &commitProvider{}
	cp.v.Store(-1)
	w, err := wal.NewVerifWal("ns", 1, opts, cp, &time2.MockedClock{}, time.Hour)
	if err != nil {
		t.Fatalf("open src wal: %v", err)
	}
	c := &walCase{t: t, dir: src, opts: opts, cp: cp, w: w, m: newModel()}
	nSynced := rapid.IntRange(0, 14).Draw(t, "nSynced")
	nTail := 0
	if !graceful {
		nTail = rapid.IntRange(0, 8).Draw(t, "nTail")
	}
	fixedLen := -1
	if rapid.Bool().Draw(t, "fixedSizes") {
		fixedLen = rapid.IntRange(0, 40).Draw(t, "fixedLen")
	}
	for i := 0; i < nSynced+nTail; i++ {
		e := c.genEntry(int64(i))
		if fixedLen >= 0 && int64(12+fixedLen+30) < int64(segSize) {
			e.Value = []byte(strings.Repeat(fmt.Sprintf("%c", 'a'+i%26), fixedLen))
		}
		if err := w.AppendAsync(e); err != nil {
			t.Fatalf("build append %d: %v", i, err)
		}
		c.m.append(e, int64(segSize))
		b.ents = append(b.ents, e)
		if i == nSynced-1 {
			ctx, cancel := context.WithTimeout(context.Background(), 20*time.Second)
			if err := w.Sync(ctx); err != nil {
				cancel()
				t.Fatalf("build sync: %v", err)
			}
			cancel()
		}
	}
	b.synced = int64(nSynced) - 1
	b.appended = int64(nSynced+nTail) - 1
	if graceful {
		if err := w.Close(); err != nil {
			t.Fatalf("build close: %v", err)
		}
	}
	img, err := os.MkdirTemp(tmpRoot, "c10img-")
	if err != nil {
		t.Fatalf("mkdtemp: %v", err)
	}
	b.root = img
	b.dir = filepath.Join(img, "ns", "shard-1")
	if err := copyDir(filepath.Join(src, "ns", "shard-1"), b.dir); err != nil {
		t.Fatalf("copy image: %v", err)
	}
	if !graceful {
		_ = w.Close()
	}
	b.ops = append(b.ops, fmt.Sprintf("build seg=%d v1first=%v synced=%d appended=%d sizes=%v", segSize, b.v1First, b.synced, b.appended, entrySizes(b.ents)))
	return b
}

func entrySizes(es []*proto.LogEntry) []int {
	var out []int
	for _, e := range es {
		out = append(out, e.SizeVT())
	}
	return out
}

// openImage opens a WAL over the image, converting a panic into an error value.
func openImage(b *builtWal, commit int64) (w wal.Wal, err error, panicked any) {
	defer func() {
		if r := recover(); r != nil {
			panicked = r
		}
	}()
	cp := &commitProvider{}
	cp.v.Store(commit)
	opts := &wal.FactoryOptions{BaseWalDir: b.root, Retention: time.Hour, SegmentSize: b.segSize, SyncData: true}
	w, err = wal.NewVerifWal("ns", 1, opts, cp, &time2.MockedClock{}, time.Hour)
	return
}

type readResult struct {
	ents     map[int64]*proto.LogEntry
	errs     map[int64]error
	last     int64
	first    int64
	panicked any
}

// readAll reads every offset in [first,last] one by one through a forward reader per offset, so
// that one failing entry does not hide the following ones.
func readAll(w wal.Wal) (res readResult) {
	res.ents = map[int64]*proto.LogEntry{}
	res.errs = map[int64]error{}
	defer func() {
		if r := recover(); r != nil {
			res.panicked = r
		}
	}()
	res.last = w.LastOffset()
	res.first = w.FirstOffset()
	if res.last < 0 {
		return
	}
	for o := res.first; o <= res.last; o++ {
		r, err := w.NewReader(o - 1)
		if err != nil {
			res.errs[o] = err
			continue
		}
		e, err := r.ReadNext()
		if err != nil {
			res.errs[o] = err
		} else {
			res.ents[o] = e
		}
		_ = r.Close()
	}
	return
}

func fillGarbage(t *rapid.T, b []byte, kind int) {
	switch kind {
	case 0: // zeros
		for i := range b {
			b[i] = 0
		}
	case 1: // 0xFF (erased flash / hostile length words)
		for i := range b {
			b[i] = 0xFF
		}
	default:
		r := rapid.SliceOfN(rapid.Byte(), len(b), len(b)).Draw(t, "garbage")
		copy(b, r)
	}
}

// ---- (a) crash images ----------------------------------------------------------------------

// flushSnapshots holds, per segment file path, the file content at the moment of its last msync
// (maintained through wal.VerifFlushHook; the tests are single-threaded).
var flushSnapshots = map[string][]byte{}

func init() {
	wal.VerifFlushHook = func(p string) {
		if b, err := os.ReadFile(p); err == nil {
			flushSnapshots[p] = b
		}
	}
}

// runC10Crash: power-loss images. For every segment file the durable content is what the file held
// at its last msync (zeros if it was never msynced since creation); every chunk that changed since
// then independently keeps the new bytes, reverts to the durable bytes, or is torn (garbage / 0xFF).
// The oracle is the statement of C10: every entry covered by a successful Sync() is recovered,
// followed by a prefix of the rest, bit-identical; the log keeps working afterwards.
func runC10Crash(t *rapid.T) {
	caseCounter.Add(1)
	for k := range flushSnapshots {
		delete(flushSnapshots, k)
	}
	src, err := os.MkdirTemp(tmpRoot, "c10src-")
	if err != nil {
		t.Fatalf("mkdtemp: %v", err)
	}
	defer os.RemoveAll(src)
	segSize := rapid.SampledFrom([]int32{128, 192, 256, 512, 1024, 4096, 8192}).Draw(t, "segSize")
	b := &builtWal{segSize: segSize}
	logf := func(f string, a ...any) { b.ops = append(b.ops, fmt.Sprintf(f, a...)) }
	srcDir := filepath.Join(src, "ns", "shard-1")
	if rapid.IntRange(0, 4).Draw(t, "v1") == 0 {
		b.v1First = true
		_ = os.MkdirAll(srcDir, 0o755)
		if err := os.WriteFile(filepath.Join(srcDir, "0.txn"), make([]byte, int(segSize)+1), 0o644); err != nil {
			t.Fatalf("v1 seed: %v", err)
		}
	}
	opts := &wal.FactoryOptions{BaseWalDir: src, Retention: time.Hour, SegmentSize: segSize, SyncData: true}
	cp := &commitProvider{}
	cp.v.Store(-1)
	w, err := wal.NewVerifWal("ns", 1, opts, cp, &time2.MockedClock{}, time.Hour)
	if err != nil {
		t.Fatalf("open src wal: %v", err)
	}
	c := &walCase{t: t, dir: src, opts: opts, cp: cp, w: w, m: newModel()}
	n := rapid.IntRange(1, 20).Draw(t, "nEntries")
	fixedLen := -1
	if rapid.Bool().Draw(t, "fixedSizes") {
		fixedLen = rapid.IntRange(0, 40).Draw(t, "fixedLen")
	}
	b.synced = -1
	for i := 0; i < n; i++ {
		e := c.genEntry(int64(i))
		if fixedLen >= 0 && int64(12+fixedLen+30) < int64(segSize) {
			e.Value = []byte(strings.Repeat(fmt.Sprintf("%c", 'a'+i%26), fixedLen))
		}
		if err := w.AppendAsync(e); err != nil {
			t.Fatalf("build append %d: %v", i, err)
		}
		c.m.append(e, int64(segSize))
		b.ents = append(b.ents, e)
		if rapid.IntRange(0, 3).Draw(t, "syncNow") == 0 {
			ctx, cancel := context.WithTimeout(context.Background(), 20*time.Second)
			err := w.Sync(ctx)
			cancel()
			if err != nil {
				t.Fatalf("build sync: %v", err)
			}
			b.synced = w.LastOffset()
			logf("Sync->%d", b.synced)
		}
	}
	b.appended = int64(n) - 1
	if got := w.LastOffset(); got != b.synced {
		t.Fatalf("harness: LastOffset %d != last successful sync %d", got, b.synced)
	}
	// take the image while the tail is still unsynced
	img, err := os.MkdirTemp(tmpRoot, "c10img-")
	if err != nil {
		t.Fatalf("mkdtemp: %v", err)
	}
	defer os.RemoveAll(img)
	b.root = img
	b.dir = filepath.Join(img, "ns", "shard-1")
	if err := copyDir(srcDir, b.dir); err != nil {
		t.Fatalf("copy image: %v", err)
	}
	snaps := map[string][]byte{}
	for p, v := range flushSnapshots {
		snaps[filepath.Base(p)] = v
	}
	_ = w.Close()
	segs := walkSegments(b.dir)
	b.ops = append([]string{fmt.Sprintf("build seg=%d v1first=%v synced=%d appended=%d sizes=%v bases=%v", segSize, b.v1First, b.synced,
		b.appended, entrySizes(b.ents), segmentBases(b.dir))}, b.ops...)

	chunk := rapid.SampledFrom([]int{8, 16, 64, 512, 4096}).Draw(t, "chunk")
	damaged, tailHit, syncedHit := false, false, false
	strict := true
	for i, s := range segs {
		data, err := os.ReadFile(s.path)
		if err != nil {
			t.Fatalf("read image: %v", err)
		}
		durable, flushed := snaps[filepath.Base(s.path)]
		if !flushed {
			durable = make([]byte, len(data)) // created zero-filled and fsynced, never msynced since
			if s.v1 {
				durable = make([]byte, len(data))
			}
			// its directory entry may not have reached the disk either (only when it is the newest file(s))
			if i > 0 && rapid.IntRange(0, 3).Draw(t, "segAbsent") == 0 {
				allUnflushed := true
				for j := i; j < len(segs); j++ {
					if _, ok := snaps[filepath.Base(segs[j].path)]; ok {
						allUnflushed = false
					}
				}
				if allUnflushed {
					for j := i; j < len(segs); j++ {
						_ = os.Remove(segs[j].path)
						_ = os.Remove(idxPath(segs[j]))
						for _, r := range segs[j].recs {
							if r.offset <= b.synced {
								syncedHit = true
							} else {
								tailHit = true
							}
						}
					}
					logf("segments >= base %d absent (never msynced)", s.base)
					damaged = true
					break
				}
			}
		}
		if len(durable) < len(data) {
			durable = append(durable, make([]byte, len(data)-len(durable))...)
		}
		for p := 0; p < len(data); p += chunk {
			q := p + chunk
			if q > len(data) {
				q = len(data)
			}
			same := true
			for k := p; k < q; k++ {
				if data[k] != durable[k] {
					same = false
					break
				}
			}
			if same {
				continue
			}
			fate := rapid.IntRange(0, 6).Draw(t, "chunkFate")
			if s.v1 && fate > 3 {
				fate = 3 // legacy format without checksums: torn bytes are undetectable by design, only loss is modelled
			}
			// only bytes that changed since the last msync are at risk; bytes that were durable and
			// were not rewritten keep their value (sector-atomic media)
			orig := append([]byte{}, data[p:q]...)
			switch fate {
			case 0, 1, 2: // the new bytes reached the disk
				continue
			case 3:
				copy(data[p:q], durable[p:q])
				logf("seg %d bytes [%d,%d) not persisted", s.base, p, q)
			case 4:
				fillGarbage(t, data[p:q], 1)
				logf("seg %d changed bytes in [%d,%d) torn: 0xFF", s.base, p, q)
			case 5:
				fillGarbage(t, data[p:q], 0)
				logf("seg %d changed bytes in [%d,%d) torn: zero", s.base, p, q)
			default:
				fillGarbage(t, data[p:q], 2)
				logf("seg %d changed bytes in [%d,%d) torn: garbage", s.base, p, q)
			}
			for k := p; k < q; k++ {
				if orig[k-p] == durable[k] {
					data[k] = durable[k]
				}
			}
			damaged = true
			for _, r := range s.recs {
				if p < r.end && q > r.start {
					if r.offset <= b.synced {
						syncedHit = true
					} else {
						tailHit = true
					}
				}
			}
			if s.v1 {
				// a v1 record whose header persisted but whose payload did not is undetectable by design
				strict = false
			}
		}
		if err := os.WriteFile(s.path, data, 0o644); err != nil {
			t.Fatalf("write image: %v", err)
		}
		// index files are written at segment close without fsync: vulnerable when the segment was
		// closed after its last msync, or never msynced (v2 only: v1 index files carry no checksum)
		if i < len(segs)-1 && !s.v1 {
			ip := idxPath(s)
			if ib, err := os.ReadFile(ip); err == nil {
				switch rapid.IntRange(0, 7).Draw(t, "idxFate") {
				case 0:
					_ = os.Remove(ip)
					logf("idx of seg %d absent", s.base)
					damaged = true
				case 1:
					k := rapid.IntRange(0, len(ib)).Draw(t, "idxCut")
					_ = os.WriteFile(ip, ib[:k], 0o644)
					logf("idx of seg %d cut to %d of %d bytes", s.base, k, len(ib))
					damaged = true
				case 2:
					k := rapid.IntRange(0, len(ib)).Draw(t, "idxZeroFrom")
					for j := k; j < len(ib); j++ {
						ib[j] = 0
					}
					_ = os.WriteFile(ip, ib, 0o644)
					logf("idx of seg %d zero from %d", s.base, k)
					damaged = true
				}
			}
		}
	}
	commit := rapid.Int64Range(-1, b.synced).Draw(t, "commit")
	logf("reopen commit=%d", commit)

	w1, err, p := openImage(b, commit)
	if p != nil {
		t.Fatalf("C10: panic while reopening after crash: %v; history=%v", p, b.ops)
	}
	if err != nil {
		t.Fatalf("C10: reopen after a crash failed although every synced byte is intact: %v; history=%v", err, b.ops)
	}
	closed := false
	defer func() {
		if !closed {
			_ = w1.Close()
		}
	}()
	res := readAll(w1)
	if res.panicked != nil {
		t.Fatalf("C10: panic while reading after crash recovery: %v; history=%v", res.panicked, b.ops)
	}
	labels := []string{}
	if damaged {
		labels = append(labels, "damaged")
	}
	if tailHit {
		labels = append(labels, "tail_record_hit")
	}
	if syncedHit {
		labels = append(labels, "synced_record_in_unsynced_bytes")
	}
	if b.v1First {
		labels = append(labels, "v1")
	}
	if len(segs) > 1 {
		labels = append(labels, "multi_segment")
	}
	if !strict {
		evid.Case("C10", tailHit || syncedHit, strings.Join(b.ops, "; "), append(labels, "v1_nopanic_only")...)
		return
	}
	if res.last < b.synced || res.last > b.appended {
		t.Fatalf("C10: recovered last offset %d outside [synced=%d, appended=%d]; history=%v", res.last, b.synced, b.appended, b.ops)
	}
	if res.last >= 0 && res.first != 0 {
		t.Fatalf("C10: recovered first offset %d, want 0; history=%v", res.first, b.ops)
	}
	for o := int64(0); o <= res.last; o++ {
		if e, ok := res.ents[o]; !ok {
			t.Fatalf("C10: recovered log (last=%d, synced=%d) cannot read offset %d: %v; history=%v", res.last, b.synced, o, res.errs[o], b.ops)
		} else if !sameEntry(e, b.ents[o]) {
			t.Fatalf("C10: recovered entry %d differs from what was appended: got %v want %v; history=%v", o, e, b.ents[o], b.ops)
		}
	}
	// the recovered WAL keeps working: append new (different) entries at last+1, sync, reopen, compare
	model := append([]*proto.LogEntry{}, b.ents[:res.last+1]...)
	nNew := rapid.IntRange(0, 4).Draw(t, "nNew")
	sameSize := rapid.Bool().Draw(t, "sameSizeAsLost")
	for i := 0; i < nNew; i++ {
		o := int64(len(model))
		e := &proto.LogEntry{Term: 900 + int64(i), Offset: o, Timestamp: 5_000_000 + uint64(i)}
		nl := rapid.IntRange(0, 30).Draw(t, "newLen")
		e.Value = []byte(strings.Repeat("N", nl))
		if sameSize && int(o) < len(b.ents) {
			// same encoded size as the lost entry formerly at this offset
			want := b.ents[o].SizeVT()
			v := &proto.LogEntry{Term: e.Term, Offset: o, Timestamp: e.Timestamp}
			for v.SizeVT() < want {
				v.Value = append(v.Value, 'N')
			}
			if v.SizeVT() == want {
				e = v
			}
		}
		if int64(12+e.SizeVT()) > int64(b.segSize) {
			e.Value = nil
		}
		if err := w1.Append(e); err != nil {
			t.Fatalf("C10: append at %d after crash recovery rejected: %v; history=%v", o, err, b.ops)
		}
		model = append(model, e)
		logf("append new o=%d size=%d", o, e.SizeVT())
	}
	closed = true
	if err := w1.Close(); err != nil {
		t.Fatalf("close: %v", err)
	}
	w2, err, p := openImage(b, int64(len(model))-1)
	if p != nil {
		t.Fatalf("C10: panic on second reopen: %v; history=%v", p, b.ops)
	}
	if err != nil {
		t.Fatalf("C10: second reopen failed: %v; history=%v", err, b.ops)
	}
	res2 := readAll(w2)
	_ = w2.Close()
	if res2.panicked != nil {
		t.Fatalf("C10: panic reading after second reopen: %v; history=%v", res2.panicked, b.ops)
	}
	if res2.last != int64(len(model))-1 {
		t.Fatalf("C10: after recovery+append+reopen last offset is %d, want %d (entries fabricated or lost); history=%v", res2.last, len(model)-1, b.ops)
	}
	for o := int64(0); o <= res2.last; o++ {
		if e, ok := res2.ents[o]; !ok || !sameEntry(e, model[o]) {
			t.Fatalf("C10: after recovery+append+reopen entry %d = %v (err %v), want %v; history=%v", o, e, res2.errs[o], model[o], b.ops)
		}
	}
	if nNew > 0 {
		labels = append(labels, "append_after_recovery")
	}
	evid.Case("C10", tailHit || syncedHit, strings.Join(b.ops, "; "), labels...)
}

func TestC10_Crash(t *testing.T) {
	rapid.Check(t, runC10Crash)
}

// ---- (b) corruption of a cleanly closed WAL --------------------------------------------------

func runC10Corrupt(t *rapid.T) {
	b := buildWal(t, true, true)
	defer os.RemoveAll(b.root)
	if len(b.ents) == 0 {
		t.Skip("empty log")
	}
	segs := walkSegments(b.dir)
	logf := func(f string, a ...any) { b.ops = append(b.ops, fmt.Sprintf(f, a...)) }
	last := int64(len(b.ents)) - 1
	commit := rapid.Int64Range(-1, last).Draw(t, "commit")
	if rapid.Bool().Draw(t, "commitAtEnd") {
		commit = last
	}
	damagedSeg := map[int]bool{}     // segment index -> damaged (txn or idx)
	damagedRec := map[int64]bool{}   // offsets whose record bytes were modified
	hitStored := false
	pristine := map[string][]byte{}
	for _, s := range segs {
		if d, err := os.ReadFile(s.path); err == nil {
			pristine[s.path] = d
		}
		if d, err := os.ReadFile(idxPath(s)); err == nil {
			pristine[idxPath(s)] = d
		}
	}
	nMut := 1
	if rapid.IntRange(0, 4).Draw(t, "multi") == 0 {
		nMut = rapid.IntRange(2, 3).Draw(t, "nMut")
	}
	for k := 0; k < nMut; k++ {
		si := rapid.IntRange(0, len(segs)-1).Draw(t, "seg")
		s := segs[si]
		data, err := os.ReadFile(s.path)
		if err != nil {
			t.Fatalf("read: %v", err)
		}
		mark := func(p, q int) {
			for _, r := range s.recs {
				if p < r.end && q > r.start {
					damagedRec[r.offset] = true
					hitStored = true
				}
			}
		}
		kind := rapid.IntRange(0, 9).Draw(t, "kind")
		if len(s.recs) == 0 && kind < 6 {
			kind = 6
		}
		changed := false
		switch kind {
		case 0, 1: // length word
			r := rapid.SampledFrom(s.recs).Draw(t, "rec")
			old := binary.BigEndian.Uint32(data[r.start:])
			remaining := uint32(len(data) - r.start)
			v := rapid.SampledFrom([]uint32{0, 1, old - 1, old + 1, remaining, remaining + 1, remaining - 11, remaining - 12, remaining - 13,
				0x7FFFFFFF, 0x80000000, 0xFFFFFFF3, 0xFFFFFFF4, 0xFFFFFFF5, 0xFFFFFFF8, 0xFFFFFFFB, 0xFFFFFFFC, 0xFFFFFFFF}).Draw(t, "len")
			if v != old {
				binary.BigEndian.PutUint32(data[r.start:], v)
				mark(r.start, r.start+4)
				changed = true
				logf("seg %d rec %d length word %d -> %#x", s.base, r.offset, old, v)
			}
		case 2: // other header bytes
			r := rapid.SampledFrom(s.recs).Draw(t, "rec")
			h := hdrSize(s.v1)
			p := r.start + rapid.IntRange(0, h-1).Draw(t, "hdrByte")
			x := byte(rapid.IntRange(1, 255).Draw(t, "xor"))
			data[p] ^= x
			mark(p, p+1)
			changed = true
			logf("seg %d rec %d header byte %d ^= %#x", s.base, r.offset, p-r.start, x)
		case 3, 4: // payload byte(s)
			r := rapid.SampledFrom(s.recs).Draw(t, "rec")
			h := hdrSize(s.v1)
			if r.end-r.start-h <= 0 {
				continue
			}
			p := r.start + h + rapid.IntRange(0, r.end-r.start-h-1).Draw(t, "payByte")
			mode := rapid.IntRange(0, 2).Draw(t, "payMode")
			old := data[p]
			switch mode {
			case 0:
				data[p] ^= byte(rapid.IntRange(1, 255).Draw(t, "xor"))
			case 1:
				data[p] = 0
			default:
				data[p] = byte(rapid.IntRange(0, 255).Draw(t, "val"))
			}
			if data[p] != old {
				mark(p, p+1)
				changed = true
				logf("seg %d rec %d payload byte %d: %#x -> %#x", s.base, r.offset, p-r.start-h, old, data[p])
			}
		case 5: // a zeroed / random range (lost page)
			size := rapid.SampledFrom([]int{4, 12, 16, 64, 512}).Draw(t, "rangeSize")
			p := rapid.IntRange(0, len(data)-1).Draw(t, "rangeStart")
			q := p + size
			if q > len(data) {
				q = len(data)
			}
			fk := rapid.IntRange(0, 2).Draw(t, "rangeKind")
			before := append([]byte{}, data[p:q]...)
			fillGarbage(t, data[p:q], fk)
			if string(before) != string(data[p:q]) {
				changed = true
				for k := p; k < q; k++ { // mark only the records whose bytes really changed
					if before[k-p] != data[k] {
						mark(k, k+1)
					}
				}
				logf("seg %d bytes [%d,%d) overwritten kind=%d", s.base, p, q, fk)
			}
		default: // index file (only read-only segments read theirs; v1 index files have no checksum)
			ip := idxPath(s)
			ib, err := os.ReadFile(ip)
			if err != nil || s.v1 {
				continue
			}
			switch rapid.IntRange(0, 4).Draw(t, "idxKind") {
			case 0:
				_ = os.Remove(ip)
				logf("idx of seg %d removed", s.base)
			case 1:
				n := rapid.IntRange(0, len(ib)).Draw(t, "idxCut")
				ib = ib[:n]
				_ = os.WriteFile(ip, ib, 0o644)
				logf("idx of seg %d cut to %d bytes", s.base, n)
			case 2:
				ib = append(ib, rapid.SliceOfN(rapid.Byte(), 1, 9).Draw(t, "idxExtra")...)
				_ = os.WriteFile(ip, ib, 0o644)
				logf("idx of seg %d extended to %d bytes", s.base, len(ib))
			default:
				if len(ib) == 0 {
					continue
				}
				p := rapid.IntRange(0, len(ib)-1).Draw(t, "idxByte")
				x := byte(rapid.IntRange(1, 255).Draw(t, "xor"))
				ib[p] ^= x
				_ = os.WriteFile(ip, ib, 0o644)
				logf("idx of seg %d byte %d ^= %#x", s.base, p, x)
			}
			damagedSeg[si] = true
			hitStored = true
			continue
		}
		if changed {
			damagedSeg[si] = true
			if err := os.WriteFile(s.path, data, 0o644); err != nil {
				t.Fatalf("write: %v", err)
			}
		}
	}
	// recompute what is really damaged by comparing the final image with the pristine one (mutations may
	// overlap or cancel each other)
	damagedSeg = map[int]bool{}
	damagedRec = map[int64]bool{}
	hitStored = false
	for si, s := range segs {
		now, _ := os.ReadFile(s.path)
		orig := pristine[s.path]
		for k := 0; k < len(orig) && k < len(now); k++ {
			if orig[k] != now[k] {
				damagedSeg[si] = true
				for _, r := range s.recs {
					if k >= r.start && k < r.end {
						damagedRec[r.offset] = true
						hitStored = true
					}
				}
			}
		}
		ip := idxPath(s)
		nowIdx, err := os.ReadFile(ip)
		origIdx, had := pristine[ip]
		if had && (err != nil || string(nowIdx) != string(origIdx)) {
			damagedSeg[si] = true
			hitStored = true
		}
	}
	logf("reopen commit=%d", commit)
	v1Damaged := false
	for si := range damagedSeg {
		if segs[si].v1 {
			v1Damaged = true
		}
	}
	minDamaged := int64(-1)
	for o := range damagedRec {
		if minDamaged == -1 || o < minDamaged {
			minDamaged = o
		}
	}
	lastSeg := len(segs) - 1
	onlyLastSegTail := len(damagedSeg) > 0 // damage confined to uncommitted records of the last segment
	for si := range damagedSeg {
		if si != lastSeg {
			onlyLastSegTail = false
		}
	}
	if minDamaged != -1 && minDamaged <= commit {
		onlyLastSegTail = false
	}

	w, err, p := openImage(b, commit)
	if p != nil {
		t.Fatalf("C10: panic while opening a damaged WAL: %v; history=%v", p, b.ops)
	}
	labels := []string{}
	if b.v1First {
		labels = append(labels, "v1")
	}
	if len(segs) > 1 {
		labels = append(labels, "multi_segment")
	}
	if hitStored {
		labels = append(labels, "hit_stored_bytes")
	}
	desc := strings.Join(b.ops, "; ")
	if err != nil {
		// an error is the documented outcome for damage to committed data; for damage that is confined to the
		// uncommitted tail of the last (v2) segment the statement demands that it be discarded instead
		if len(damagedSeg) == 0 {
			t.Fatalf("C10: undamaged WAL failed to open: %v; history=%v", err, b.ops)
		}
		if onlyLastSegTail && !v1Damaged {
			t.Fatalf("C10: damage confined to uncommitted records (first damaged %d > commit %d) of the last segment was not discarded: %v; history=%v",
				minDamaged, commit, err, b.ops)
		}
		evid.Case("C10", hitStored, desc, append(labels, "open_error")...)
		return
	}
	defer func() { _ = w.Close() }()
	res := readAll(w)
	if res.panicked != nil {
		t.Fatalf("C10: panic while reading a damaged WAL: %v; history=%v", res.panicked, b.ops)
	}
	if v1Damaged {
		// legacy format: no checksum, damage is undetectable by design; only "no panic" is claimed
		evid.Case("C10", hitStored, desc, append(labels, "v1_nopanic_only")...)
		return
	}
	if nMut > 1 {
		// several independent damaged spots: a CRC32 can be defeated by coordinated changes (e.g. one bit in
		// the previous-CRC field and one in the payload cancel out), so only "no panic" is claimed here
		evid.Case("C10", hitStored, desc, append(labels, "multi_damage_nopanic_only")...)
		return
	}
	if res.last > last {
		t.Fatalf("C10: damaged WAL reports last offset %d beyond what was ever appended (%d); history=%v", res.last, last, b.ops)
	}
	if res.last == -1 && len(segs) == 1 && segs[0].base == 0 {
		// a log that is blank from offset 0 on is what a snapshot install legitimately leaves behind (the
		// commit offset then comes from the snapshot): a WAL whose whole content was zeroed cannot be
		// told apart from it. Stated limitation, not a violation.
		evid.Case("C10", hitStored, desc, append(labels, "blank_from_zero_ambiguous")...)
		return
	}
	if res.last < commit {
		t.Fatalf("C10: damaged WAL opened without error but silently lost committed entries: last=%d < commit=%d; history=%v", res.last, commit, b.ops)
	}
	segOf := func(o int64) int {
		for i := len(segs) - 1; i >= 0; i-- {
			if o >= segs[i].base {
				return i
			}
		}
		return 0
	}
	for o := res.first; o <= res.last; o++ {
		if e, ok := res.ents[o]; ok {
			if !sameEntry(e, b.ents[o]) {
				t.Fatalf("C10: damaged WAL returned entry %d as valid but it differs: got %v want %v; history=%v", o, e, b.ents[o], b.ops)
			}
		} else if !damagedSeg[segOf(o)] {
			t.Fatalf("C10: entry %d of an undamaged segment cannot be read: %v; history=%v", o, res.errs[o], b.ops)
		}
	}
	if res.last >= 0 && res.first != 0 {
		t.Fatalf("C10: first offset %d after reopen, want 0; history=%v", res.first, b.ops)
	}
	if onlyLastSegTail && minDamaged != -1 {
		if res.last >= minDamaged {
			// the damaged record was returned as valid? (readAll would have compared it) -- only possible if
			// the damage was benign; a v2 record with any modified byte fails its CRC, so this is a violation
			if _, ok := res.ents[minDamaged]; ok {
				t.Fatalf("C10: damaged uncommitted record %d is served as valid; history=%v", minDamaged, b.ops)
			}
		}
		for o := int64(0); o < minDamaged && o <= last; o++ {
			if _, ok := res.ents[o]; !ok {
				t.Fatalf("C10: entry %d before the damaged uncommitted tail (first damaged %d) is gone: %v; history=%v", o, minDamaged, res.errs[o], b.ops)
			}
		}
		labels = append(labels, "tail_discarded")
	}
	if len(damagedSeg) == 0 && res.last != last {
		t.Fatalf("C10: undamaged WAL lost entries: last=%d want %d; history=%v", res.last, last, b.ops)
	}
	evid.Case("C10", hitStored, desc, labels...)
}

func TestC10_Corrupt(t *testing.T) {
	rapid.Check(t, runC10Corrupt)
}
