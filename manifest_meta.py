NOTES = ("All checks are property-based tests (pgregory.net/rapid v1.3.0 generators and state machines; fault injection by wrapped "
         "storage factories, byte-copy kill images, strace-injected SIGKILL and a harness-owned wire / TCP relay) run by ./check against the "
         "harness module in harness/, which `replace`s github.com/oxia-db/oxia with /repo so every run rebuilds from /repo's working tree. "
         "Native go fuzzing is not used by any registered command. Open findings: known_findings.json (re-confirmed by scripted tests on every "
         "run). Seeded regressions and which check catches which: seeded/ and DESIGN.md 0.6. See DESIGN.md section 0 for what was built.")

ENGINES = [
    {"name": "kvx", "path": "harness/kvx", "serves_properties": ["C06", "C07", "C11", "C12", "C13", "C16", "C17"],
     "kind_free_text": "real kv.DB / Pebble KV driven by rapid generators against the sequential reference model in harness/model"},
    {"name": "leaderx", "path": "harness/leaderx", "serves_properties": ["C07", "C08", "C13", "C14", "C15", "C17"],
     "kind_free_text": "real LeaderController (RF=1, real WAL and Pebble through wrapping factories with gates) driven by rapid state machines"},
    {"name": "clusterx", "path": "harness/clusterx", "serves_properties": ["C01", "C02", "C03", "C04", "C05", "C06"],
     "kind_free_text": "3-5 real storage nodes + the real coordinator ShardController in one process over a harness-owned wire; generated fault programs; oracles over the recorded history"},
    {"name": "clientx", "path": "harness/clientx", "serves_properties": ["C20", "C18", "C17"],
     "kind_free_text": "the real public client over loopback gRPC against scripted fake OxiaClient servers"},
    {"name": "coordx", "path": "harness/coordx", "serves_properties": ["C05", "C18", "C19"],
     "kind_free_text": "real ApplyClusterChanges / ensemble selector / load balancer / Coordinator over stub nodes, driven by rapid generators"},
    {"name": "e2ex", "path": "harness/e2ex", "serves_properties": ["C08", "C12", "C14", "C15", "C17", "C20"],
     "kind_free_text": "the real public client against a real standalone server (loopback, on-disk), generated scenarios with real timers"},
    {"name": "walx", "path": "harness/walx", "serves_properties": ["C09", "C10"],
     "kind_free_text": "rapid state machine + crash/corruption image generator over the real WAL against a list model"},
]

# properties not (yet) claimed; entries whose id has a check in checks_config.py are dropped automatically
_PENDING = "check not built yet (planned in DESIGN.md section 9); not a statement that the technique cannot apply"
NOT_APPLICABLE = {("C%02d" % i): _PENDING for i in range(1, 21)}

META = {
    "C09": {
        "engine": "walx",
        "technique": "model-based property testing (rapid state machine vs list model)",
        "design_ref": "DESIGN.md 4.1, 5 C09",
        "level_text": "Generated operation sequences over a real on-disk WAL compared step by step with a list model "
                      "(first/last after every action, full forward/reverse reads, trim bounds). Exploration: thousands "
                      "of distinct non-trivial histories per run with segment sizes chosen so truncations and "
                      "rollovers land on segment boundaries; no exhaustiveness claim.",
        "level_note": "Trusts the kernel page cache/mmap semantics for a graceful close; entries stay inside what the "
                      "controllers produce (fit a segment, non-empty encoding, monotone term/timestamp).",
    },
    "C10": {
        "engine": "walx",
        "technique": "fault-injecting property testing (generated power-loss and corruption images vs list model)",
        "design_ref": "DESIGN.md 4.1, 5 C10",
        "level_text": "Generated crash points (which bytes changed since the last msync reached the disk, torn or not, "
                      "which index/segment files exist) and single-region corruptions of real WAL directories, each "
                      "reopened through the real recovery path and compared with the list model; fault enumeration by "
                      "sampling, tens of thousands of distinct images per run.",
        "level_note": "Durability model: msync makes the file content durable (hook reports each msync); bytes not "
                      "rewritten keep their value; Pebble/kernel trusted. v1 format: no-panic only where the format "
                      "cannot detect damage.",
    },
    "C11": {
        "engine": "kvx", "technique": "property-based testing: algebraic laws + model-based differential against a sorted reference",
        "design_ref": "DESIGN.md 4.2, 5 C11",
        "level_text": "Comparator laws and Pebble's comparer contract over hundreds of thousands of generated key pairs/triples, plus "
                      "real multi-block Pebble data sets read back through every read path and compared with a sorted reference.",
        "level_note": "Compaction timing is Pebble's; block size/flush are the production settings of kv_pebble.go.",
    },
    "C12": {
        "engine": "kvx+e2ex", "technique": "model-based property testing (rapid state machine vs sequential reference model), at database level and end to end through the real client and a real standalone server",
        "design_ref": "DESIGN.md 4.2, 5 C12",
        "level_text": "Thousands of generated request histories applied to the real database and checked response by response and "
                      "read by read against an executable sequential specification.",
        "level_note": "DB level (the callback chain leader and follower share); leader-level dispatch is covered by the leaderx checks.",
    },
    "C13": {
        "engine": "kvx+leaderx", "technique": "property-based testing with structured hostile-input generators (incl. non-UTF-8 strings, ranges spanning the reserved prefix) + differential between two replicas + crash-replay of hostile requests through the real leader",
        "design_ref": "DESIGN.md 4.2, 5 C13",
        "level_text": "Generated requests covering everything a client can encode are applied to two real databases; any "
                      "infrastructure error, missing status or divergence is a violation. Four listed findings (invalid sequence "
                      "puts) are re-confirmed by scripted replay each run and excluded from the generators.",
        "level_note": "DB-level application (the path both leader replay and follower apply use).",
    },
    "C16": {
        "engine": "kvx", "technique": "model-based property testing with a commit gate for subscriber timing",
        "design_ref": "DESIGN.md 4.2, 5 C16",
        "level_text": "Generated sequence-put histories with exact recomputation of every generated key and subscriber checks at "
                      "quiescence; one listed finding (subscriber attaching between key generation and commit) re-confirmed "
                      "by scripted schedule each run.",
        "level_note": "DB level; liveness only in the bounded form 'at quiescence'.",
    },
    "C17": {
        "engine": "kvx+leaderx+clientx+e2ex", "technique": "model-based property testing (net-effect oracle over stored notification batches); stateful testing of the leader's notification streams and of the client's notification manager with reconnects; end-to-end run",
        "design_ref": "DESIGN.md 4.2, 5 C17",
        "level_text": "Generated write histories; each stored batch compared with the model's net effect; resumable reads and "
                      "retention-bounded trimming under an injected clock.",
        "level_note": "DB level in this check; one listed finding (key entry replaced by a range entry with the same start key).",
    },
    "C08": {
        "engine": "leaderx+e2ex", "technique": "concurrent property testing with schedule perturbation + model-based state machine on the ack tracker + pipelined real client against a real standalone server",
        "design_ref": "DESIGN.md 4.3, 5 C08",
        "level_text": "Generated writer populations against a real leader with injected delays at the allocation/append boundary, "
                      "and tens of thousands of tracker histories (followers may acknowledge what the leader's log has synced but not yet announced to the tracker) against the reference commit rule.",
        "level_note": "Real goroutines: schedules are perturbed, not enumerated. One listed finding (RF=1 tracker initial commit offset).",
    },
    "C14": {
        "engine": "leaderx+e2ex", "technique": "model-based property testing with a gate on the session cleanup's key listing; real-timer expiry scenarios; real client sessions against a real standalone server",
        "design_ref": "DESIGN.md 4.3, 5 C14",
        "level_text": "Generated session/write/leader-change histories on a real leader; ownership model compared with a full dump "
                      "after every session end. One listed finding (cleanup deletes a record taken over after the listing), "
                      "re-confirmed by a scripted schedule each run.",
        "level_note": "Expiry timing needs real 2 s timers and is exercised separately when built; hangs are inconclusive.",
    },
    "C15": {
        "engine": "leaderx+e2ex", "technique": "model-based property testing (index entries derived from live records vs sorted reference), at leader level and end to end through the real client",
        "design_ref": "DESIGN.md 4.3, 5 C15",
        "level_text": "Generated write histories with neighbouring index names; every index query path compared with a sorted "
                      "reference restricted to that index.",
        "level_note": "Leader level (Read/List/RangeScan of the real LeaderController).",
    },
    "C01": {
        "engine": "clusterx", "technique": "stateful property-based testing with injected faults over an in-process cluster (history-based oracles)",
        "design_ref": "DESIGN.md 4.4, 5 C01",
        "level_text": 'Generated fault programs against real nodes and the real shard controller; acknowledged writes checked against the final committed log and the final state against a reference fold of that log.',
        "level_note": "Real goroutines and real 100 ms/1 s coordinator timers: schedules are explored, not enumerated; node crashes are graceful stops here.",
    },
    "C02": {
        "engine": "clusterx", "technique": "stateful property-based testing with injected faults over an in-process cluster (history-based oracles)",
        "design_ref": "DESIGN.md 4.4, 5 C02",
        "level_text": 'Same engine; the recorded concurrent client history is checked against the committed log as the only candidate linearization, with real-time windows for reads.',
        "level_note": "Real goroutines and real 100 ms/1 s coordinator timers: schedules are explored, not enumerated; node crashes are graceful stops here.",
    },
    "C03": {
        "engine": "clusterx", "technique": "stateful property-based testing with injected faults over an in-process cluster (history-based oracles)",
        "design_ref": "DESIGN.md 4.4, 5 C03",
        "level_text": 'Same engine; per-ack durability and identity checks on the wire, pairwise log and database agreement at the end.',
        "level_note": "Real goroutines and real 100 ms/1 s coordinator timers: schedules are explored, not enumerated; node crashes are graceful stops here.",
    },
    "C04": {
        "engine": "clusterx", "technique": "stateful property-based testing with injected faults over an in-process cluster (history-based oracles)",
        "design_ref": "DESIGN.md 4.4, 5 C04",
        "level_text": "Same engine; a fenced node's log head, acks and served requests are checked against the NewTerm answers recorded on the wire.",
        "level_note": "Real goroutines and real 100 ms/1 s coordinator timers: schedules are explored, not enumerated; node crashes are graceful stops here.",
    },
    "C05": {
        "engine": "clusterx+leaderx+coordx", "technique": "stateful property-based testing with injected faults over an in-process cluster (history-based oracles); fault enumeration of process-kill points (byte-copy kill image after NewTerm; strace-injected SIGKILL at the k-th system call of the metadata file provider)",
        "design_ref": "DESIGN.md 4.4, 5 C05",
        "level_text": 'Same engine; election safety checked on the recorded coordinator events and node answers.',
        "level_note": "Real goroutines and real 100 ms/1 s coordinator timers: schedules are explored, not enumerated; node crashes are graceful stops here.",
    },
    "C20": {
        "engine": "clientx+e2ex", "technique": "property-based testing of the real client against scripted fake servers (differential: per-operation answer function), incl. held answers and abandoned fan-out; end-to-end run against a real standalone server with the reference model",
        "design_ref": "DESIGN.md 4.6, 5 C20",
        "level_text": "Generated call streams, batching configurations, per-shard timings and error placements against the "
                      "unmodified client library over loopback gRPC; each result checked against the answer function of its own operation.",
        "level_note": "Loopback TCP and real timers (linger, retry backoff); hangs are inconclusive.",
    },
    "C18": {
        "engine": "coordx+clientx", "technique": "property-based testing: partition invariant over generated config histories; differential routing check client vs server hash",
        "design_ref": "DESIGN.md 4.5, 4.6, 5 C18",
        "level_text": "Generated shard counts, config histories (pure and through the real coordinator) and assignment switches seen by "
                      "the real client; one listed finding (namespace put back while its previous shards are being deleted).",
        "level_note": "Coordinator-level and client-level parts use real timers/loopback sockets; timing bounds only make cases inconclusive.",
    },
    "C19": {
        "engine": "coordx", "technique": "property-based testing of the real selector and balancer against a validity predicate",
        "design_ref": "DESIGN.md 4.5, 5 C19",
        "level_text": "Hundreds of thousands of generated clusters/policies for the selector and tens of thousands of balancer rounds, each "
                      "checked against a validity predicate (not one expected placement).",
        "level_note": "Anti-affinity uses the weakest reading of multi-label rules.",
    },
    "C06": {
        "engine": "clusterx", "technique": "differential property-based testing across application routes (live, streamed, restarted, snapshot-installed, plain fold)",
        "design_ref": "DESIGN.md 4.4, 5 C06",
        "level_text": "Generated rich request sequences on a real 3-node cluster; every replica's full decoded dump compared with a plain in-order fold of the committed log.",
        "level_note": "The fold uses the real ProcessWrite; notification records compared decoded (map serialization order is not deterministic).",
    },
    "C07": {
        "engine": "leaderx", "technique": "fault-injecting property-based testing against a reference fold: logical crash image after the k-th batch commit, and physical kill image (byte copy of the node's directories) with log trimming under an injected clock",
        "design_ref": "DESIGN.md 4.3, 5 C07",
        "level_text": "Generated runs with concurrent writers; crash images at drawn commit points compared with the fold of the log prefix, and the restarted node with the fold of the whole log.",
        "level_note": "Commit-granular crash points; Pebble's internal atomicity and the page cache are trusted.",
    },
}
