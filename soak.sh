#!/bin/bash
# runs every quick check at the given seeds and prints one line per run (used before finishing: a check that
# exits non-zero on the unchanged tree is broken)
cd /verif
for seed in "$@"; do
  for p in C01 C02 C03 C04 C05 C06 C07 C08 C09 C10 C11 C12 C13 C14 C15 C16 C17 C18 C19 C20; do
    out=$(VERIF_SEED=$seed ./check quick $p 2>&1); rc=$?
    echo "seed=$seed $p rc=$rc $(echo "$out" | grep -v KNOWN-FINDING | tail -1 | cut -c1-160)"
    if [ $rc -ne 0 ]; then echo "$out" | tail -40 > /tmp/soak_fail_${seed}_$p.log; fi
  done
done
