#!/bin/bash
# runs every thorough check once and prints one line per property
cd "$(dirname "$0")"
for p in "$@"; do
  t0=$(date +%s); out=$(VERIF_SEED=${VERIF_SEED:-1} ./check thorough $p 2>&1); rc=$?; t1=$(date +%s)
  echo "$p rc=$rc wall=$((t1-t0))s $(echo "$out" | grep -v KNOWN-FINDING | grep -E 'VIOLATION|^OK|INCONCLUSIVE|generator health|ran \[' | head -3 | tr '\n' ' ' | cut -c1-300)"
  if [ $rc -ne 0 ]; then echo "$out" | grep -v "rapid\] draw" | head -120 > thorough_fail_$p.log; fi
done
